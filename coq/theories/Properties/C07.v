(* Property C07: a run's outcome depends only on bytecode, globals and arguments.
   Status: PARTIAL.  Proved over a model of every field of VM and of SetBytecode, Clear and
   Run's prologue (initGlobals, initLocals, initCurrentFrame, register resets, module cache
   resize): for ANY two previous VM states - whatever scripts they ran and however those ended -
   the state a run starts from agrees on everything a run can read before writing it: the
   slots below sp, frame 0 (function, handlers, base pointer, discard flag; its free variables
   only when Main has free variables - the stale value kept otherwise is named explicitly),
   the registers, error, abort flag, globals, module cache and bytecode.
   That no instruction reads a slot at or above sp, a frame at or above frameIndex or the stale
   free variables before writing them (dead_slots_unread) needs the full VM model and is not
   proved; it is decided on every run by histories of runs ending in return / uncaught error /
   recovered panic / stack overflow / abort on one VM, compared with a new VM, together with
   a digest of the Bytecode before and after (bytecode_unchanged). *)
From Coq Require Import List ZArith Bool.
From Ugo Require Import Base.Res Value.PValue VM.CallBinding VM.RunReset VM.RunResetProofs.
Import ListNotations.
Local Open Scope Z_scope.

Theorem C07_run_state_independent_partial :
  forall s1 s2 bc g args,
  live_of (run_prologue (set_bytecode s1 bc) bc g args) = live_of (run_prologue (set_bytecode s2 bc) bc g args).
Proof. exact run_state_independent. Qed.
Print Assumptions C07_run_state_independent_partial.

Theorem C07_cleared_equals_used_partial :
  forall s1 s2 bc g args,
  live_of (run_prologue (set_bytecode (clear s1) bc) bc g args) = live_of (run_prologue (set_bytecode s2 bc) bc g args).
Proof. exact run_state_independent_cleared. Qed.
Print Assumptions C07_cleared_equals_used_partial.

(* non-vacuity: two very different previous states *)
Example C07_two_histories :
  let bc := {| bc_main := {| mf_params := 2; mf_variadic := true; mf_locals := 3; mf_free := None; mf_id := 7 |};
               bc_modules := 2; bc_id := 1 |} in
  let junk := {| v_stack := fun _ => Some (PInt 99);
                 v_frames := fun _ => {| fr_fn := Some 5; fr_free := Some [1; 2]; fr_handlers := [3; 4]; fr_bp := 40; fr_discard := true; fr_ip := 9 |};
                 v_sp := 2047; v_ip := 55; v_frame_index := 1024; v_err := Some 1; v_abort := true; v_globals := Some 8;
                 v_modules := [Some 1]; v_bytecode := None; v_no_panic := true; v_pool := [1] |} in
  let fresh := {| v_stack := fun _ => None;
                  v_frames := fun _ => {| fr_fn := None; fr_free := None; fr_handlers := []; fr_bp := 0; fr_discard := false; fr_ip := 0 |};
                  v_sp := 0; v_ip := 0; v_frame_index := 0; v_err := None; v_abort := false; v_globals := None;
                  v_modules := []; v_bytecode := None; v_no_panic := true; v_pool := [] |} in
  l_slots (live_of (run_prologue (set_bytecode junk bc) bc 3 [PInt 1; PInt 2; PInt 3])) =
    [Some (PInt 1); Some (PArr [PInt 2; PInt 3]); Some PUndef] /\
  live_of (run_prologue (set_bytecode junk bc) bc 3 [PInt 1; PInt 2; PInt 3]) =
  live_of (run_prologue (set_bytecode fresh bc) bc 3 [PInt 1; PInt 2; PInt 3]).
Proof. split; reflexivity. Qed.
