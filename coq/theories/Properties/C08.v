(* C08: many VMs may run one Bytecode concurrently.
   Proved: (1) when a VM step reads the shared Bytecode and writes only the private state of its
   own VM, every interleaving of any number of VMs leaves each VM in the state it reaches alone;
   (2) on bytecode accepted by the validator share_ok - run on the compiled form of every program
   of the check - no instruction other than the import pattern's JUMPFALSY / STOREMODULE ever
   executes while the VM stack refers to a shared mutable constant, on every control path
   (calls, returns, throws and callbacks over-approximated), so scripts reach only the private
   copy of a builtin module value; (3) the opcodes of the current vm.go which read the constant
   pool are those of the model, and no assignment of vm.go targets an element of constants,
   instructions, source maps or the file set (tables regenerated from the source).
   The premise of (1) for the real VM - no write to anything reachable from the Bytecode - is
   a runtime matter: it is checked by the Go race detector over concurrent runs (see DESIGN.md). *)
From Coq Require Import List ZArith Bool String.
From Ugo Require Import Gen.VMShare Share.Share Share.ShareProofs Share.ShareCheck.
Import ListNotations.

Theorem C08_interleave_independent : forall (Shared Priv : Type) (step : Shared -> Priv -> Priv) sh sched privs i p,
  nth_error privs i = Some p ->
  nth_error (run_sched Shared Priv step sh privs sched) i = Some (iter Priv (count i sched) (step sh) p).
Proof. exact interleave_independent. Qed.
Print Assumptions C08_interleave_independent.

Theorem C08_share_ok_sound : forall consts fns,
  share_ok consts fns = true ->
  forall l k st i, reach consts fns l k st -> nth_error l k = Some i -> ~ exposed i st.
Proof. exact share_ok_sound. Qed.
Print Assumptions C08_share_ok_sound.

Theorem C08_const_readers_modelled : readers_modelled = true.
Proof. vm_compute. reflexivity. Qed.
Print Assumptions C08_const_readers_modelled.

Theorem C08_no_shared_element_writes : shared_element_writes = [].
Proof. reflexivity. Qed.
Print Assumptions C08_no_shared_element_writes.

(* non-vacuity: the import pattern of a builtin module is accepted, a module constant pushed by
   CONSTANT is rejected, and the abstract execution reaches the state with the shared value *)
Example C08_pattern_accepted :
  share_ok [CkCopier; CkImm]
    [[mkPI 0 5 (SLoadModule 0 0); mkPI 5 5 (SJumpFalsy 13); mkPI 10 3 (SStoreModule 0); mkPI 13 3 (SConstant 1)]] = true /\
  share_ok [CkCopier] [[mkPI 0 3 (SConstant 0)]] = false /\
  share_ok [CkCopier] [[mkPI 0 5 (SLoadModule 0 0); mkPI 5 5 (SJumpFalsy 99); mkPI 10 3 (SStoreModule 0)]] = false.
Proof. vm_compute. repeat split; reflexivity. Qed.
Example C08_shared_value_reachable :
  let l := [mkPI 0 5 (SLoadModule 0 0); mkPI 5 5 (SJumpFalsy 13); mkPI 10 3 (SStoreModule 0)] in
  reach [CkCopier] [l] l 1 [TBool true; TShared].
Proof.
  intros l. eapply (RSeq _ _ l 0 [] (mkPI 0 5 (SLoadModule 0 0))).
  - apply RStart; [left; reflexivity | intros []].
  - reflexivity.
  - apply (ALoadMiss [CkCopier] (mkPI 0 5 (SLoadModule 0 0)) 0 0 []). reflexivity.
Qed.
