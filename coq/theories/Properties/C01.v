(* Property C01: the optimizer never changes what a script does.
   Status: PARTIAL.
   Proved for all literals and operators: whatever the optimizer's folding tables (binaryopInts,
   binaryopFloats, binaryop, unaryop - modelled in Comp/Fold.v and compared with the real tables
   through a hook on every run) fold to, is exactly the value the VM operators (Value/Ops.v,
   tied to the implementation by the exhaustive C15 correspondence) compute at run time; the
   tables never fold an operation on which the VM raises an error (so 1 % 0, 1 << -1 are left
   to the evaluator, which reports the run-time error as an optimizer error); literal
   conditions are rewritten according to run-time truthiness.
   Expression trees (translation validation): fold_ok e e' decides whether the tree e' which the
   real optimizer returns for the tree e differs from it only by constant sub-expressions replaced
   by the literal of their value (whichever of the tables or the evaluator produced it) and literal
   conditions of ?: replaced by true / false; related trees evaluate alike for all values of the
   variables.  The check runs the validator on the trees the real parser and optimizer produce.
   Not proved (kept as a definition; decided on every run by differential execution optimizer
   off vs every budget): equivalence for whole programs, which also depends on the scope
   tracking of shadowed builtins, the constant pool and the private evaluator VM. *)
From Coq Require Import List ZArith Bool Floats.SpecFloat Strings.Byte.
From Ugo Require Import Base.Res Base.GoInt Base.GoFloat Value.PValue Value.Ops Comp.Fold Comp.FoldProofs Comp.FoldExpr Comp.FoldExprProofs.
Import ListNotations.
Local Open Scope Z_scope.

Theorem C01_fold_binop_sound :
  forall t l r e, fold_binop t l r = Some e -> binop t (lit_value l) (lit_value r) = Ok (lit_value e).
Proof. exact fold_binop_sound. Qed.
Print Assumptions C01_fold_binop_sound.

Theorem C01_fold_unop_sound :
  forall t x e, fold_unop t x = Some e -> unop t (lit_value x) = Ok (lit_value e).
Proof. exact fold_unop_sound. Qed.
Print Assumptions C01_fold_unop_sound.

Theorem C01_literal_condition_sound :
  forall e, is_falsy (lit_value e) = Some (is_literal_falsy e).
Proof. exact literal_falsy_sound. Qed.
Print Assumptions C01_literal_condition_sound.

(* the tables refuse exactly where a constant operation is an error at run time *)
Example C01_refusals :
  fold_binop TRem (LInt 1) (LInt 0) = None /\ fold_binop TQuo (LInt 1) (LInt 0) = None /\
  fold_binop TShl (LInt 1) (LInt (-1)) = None /\ fold_binop TQuo (LFloat (f64_of_Z 1)) (LFloat (S754_zero true)) = None /\
  fold_binop TShl (LInt 1) (LInt 70) = Some (LInt 0) /\
  fold_unop TSub (LFloat (S754_zero false)) = Some (LFloat (S754_zero true)).
Proof. vm_compute. repeat split; reflexivity. Qed.

(* translation validation of the optimizer on expression trees: what the validator accepts has the
   meaning of the original, whatever the values of the variables *)
Theorem C01_fold_validated :
  forall e e' locals, fold_ok e e' = true -> oeval locals e' = oeval locals e.
Proof. exact fold_ok_sound. Qed.
Print Assumptions C01_fold_validated.

(* a refusal is justified when some sub-expression of the script fails whatever the values of the variables *)
Theorem C01_refusal_justified :
  forall e, const_error e = true ->
  exists s, In s (subexprs e) /\ (forall locals, match oeval locals s with Ok _ => False | _ => True end).
Proof. exact const_error_witness. Qed.
Print Assumptions C01_refusal_justified.

Example C01_validator :
  (* (1 + 2) * x ? "a" + "b" : -(3)   ->   3 * x ? "ab" : -3   is accepted;  3 * x -> 3 + x is not;
     a condition 0 may become false, not true; 1 % 0 justifies a refusal *)
  let x := OVar 0 in
  let i z := OLit (LInt z) in
  let s c := OLit (LStr [c]) in
  let ba := Byte.x61 in let bb := Byte.x62 in
  fold_ok (OCond (OBin TMul (OBin TAdd (i 1) (i 2)) x) (OBin TAdd (s ba) (s bb)) (OUn TSub (i 3)))
          (OCond (OBin TMul (i 3) x) (OLit (LStr [ba; bb])) (i (-3))) = true /\
  fold_ok (OBin TMul (i 3) x) (OBin TAdd (i 3) x) = false /\
  fold_ok (OCond (i 0) x (i 1)) (OCond (OLit (LBool false)) x (i 1)) = true /\
  fold_ok (OCond (i 0) x (i 1)) (OCond (OLit (LBool true)) x (i 1)) = false /\
  const_error (OBin TAdd x (OBin TRem (i 1) (i 0))) = true /\ const_error (OBin TAdd x (OBin TRem (i 1) (i 2))) = false.
Proof. vm_compute. repeat split; reflexivity. Qed.
