(* Property C01: the optimizer never changes what a script does.
   Status: PARTIAL.
   Proved for all literals and operators: whatever the optimizer's folding tables (binaryopInts,
   binaryopFloats, binaryop, unaryop - modelled in Comp/Fold.v and compared with the real tables
   through a hook on every run) fold to, is exactly the value the VM operators (Value/Ops.v,
   tied to the implementation by the exhaustive C15 correspondence) compute at run time; the
   tables never fold an operation on which the VM raises an error (so 1 % 0, 1 << -1 are left
   to the evaluator, which reports the run-time error as an optimizer error); literal
   conditions are rewritten according to run-time truthiness.
   Not proved (kept as a definition; decided on every run by differential execution optimizer
   off vs every budget): equivalence for whole programs, which also depends on the scope
   tracking of shadowed builtins, the constant pool and the private evaluator VM. *)
From Coq Require Import List ZArith Bool Floats.SpecFloat.
From Ugo Require Import Base.Res Base.GoInt Base.GoFloat Value.PValue Value.Ops Comp.Fold Comp.FoldProofs.
Import ListNotations.
Local Open Scope Z_scope.

Theorem C01_fold_binop_sound :
  forall t l r e, fold_binop t l r = Some e -> binop t (lit_value l) (lit_value r) = Ok (lit_value e).
Proof. exact fold_binop_sound. Qed.
Print Assumptions C01_fold_binop_sound.

Theorem C01_fold_unop_sound :
  forall t x e, fold_unop t x = Some e -> unop t (lit_value x) = Ok (lit_value e).
Proof. exact fold_unop_sound. Qed.
Print Assumptions C01_fold_unop_sound.

Theorem C01_literal_condition_sound :
  forall e, is_falsy (lit_value e) = Some (is_literal_falsy e).
Proof. exact literal_falsy_sound. Qed.
Print Assumptions C01_literal_condition_sound.

(* the tables refuse exactly where a constant operation is an error at run time *)
Example C01_refusals :
  fold_binop TRem (LInt 1) (LInt 0) = None /\ fold_binop TQuo (LInt 1) (LInt 0) = None /\
  fold_binop TShl (LInt 1) (LInt (-1)) = None /\ fold_binop TQuo (LFloat (f64_of_Z 1)) (LFloat (S754_zero true)) = None /\
  fold_binop TShl (LInt 1) (LInt 70) = Some (LInt 0) /\
  fold_unop TSub (LFloat (S754_zero false)) = Some (LFloat (S754_zero true)).
Proof. vm_compute. repeat split; reflexivity. Qed.
