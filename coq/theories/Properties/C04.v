(* Property C04: encoding bytecode and decoding it again preserves behaviour.
   C04_object_rt: for every object the tagged codec can hold - scalars in range, strings, bytes,
   arrays, maps, sync maps (nil or not), function and builtin function objects, compiled functions
   (parameter and local counts, instructions, variadic flag, source map), nested through arrays,
   maps and sync maps to any depth - decoding the encoding, followed by arbitrary further bytes,
   returns exactly that object and those bytes (map entries in the order the encoder wrote them).
   Varint / zig-zag / length-prefixed varint round trips are proved separately.
   Modelled but not proved as a whole: compiled functions stored as constants inside other compiled
   functions are a field of Bytecode, not of the object codec: the Bytecode container (constants
   array, main function, module count) and the file set are exercised by cross decoding model <->
   implementation and whole-program round trips on every run (hence PARTIAL). *)
From Coq Require Import List ZArith Bool Lia.
From Ugo Require Import Base.Res Codec.Varint Codec.VarintProofs Codec.Obj Codec.ObjProofs Codec.ObjArrayProofs Codec.ObjMapProofs Codec.ObjCFuncProofs Codec.ObjFullProofs.
Import ListNotations.
Local Open Scope Z_scope.

Fixpoint encodable (v : cval) : bool :=
  match v with
  | CInt z => (- 2 ^ 63 <=? z) && (z <? 2 ^ 63)
  | CUint z | CFloat z => (0 <=? z) && (z <? 2 ^ 64)
  | CChar z => (- 2 ^ 31 <=? z) && (z <? 2 ^ 31)
  | CArr l => forallb encodable l
  | CMap m | CSyncMap (Some m) => forallb (fun kv => encodable (snd kv)) m
  | _ => true
  end.

(* the objects: scalars in range, well-formed compiled functions *)
Theorem C04_object_rt :
  forall v rest, okv v -> zlen (encode v) < 2 ^ 61 ->
  forall fuel, (depthf v < fuel)%nat -> decode_object fuel (encode v ++ rest) = Ok (v, rest).
Proof. exact object_rt. Qed.
Print Assumptions C04_object_rt.

(* in particular at the fuel the decoder starts with *)
Theorem C04_decode_encode :
  forall v rest, okv v -> zlen (encode v) < 2 ^ 61 -> (depthf v <= List.length (encode v ++ rest))%nat ->
  decode (encode v ++ rest) = Ok (v, rest).
Proof. intros v rest Hok Hsz Hd. unfold decode. apply object_rt; [exact Hok | exact Hsz | lia]. Qed.
Print Assumptions C04_decode_encode.

Theorem C04_varint_rt :
  forall x rest, - 2 ^ 63 <= x < 2 ^ 63 ->
  varint (put_varint x ++ rest) = (x, Z.of_nat (length (put_varint x))).
Proof. exact varint_put. Qed.
Print Assumptions C04_varint_rt.

Theorem C04_uvarint_rt :
  forall x rest, 0 <= x < 2 ^ 64 ->
  uvarint (put_uvarint 9 x ++ rest) = (x, Z.of_nat (length (put_uvarint 9 x))).
Proof. exact uvarint_put. Qed.
Print Assumptions C04_uvarint_rt.

Theorem C04_sized_varint_rt :
  forall v rest, - 2 ^ 63 <= v < 2 ^ 63 -> vi_read (vi_to_bytes v ++ rest) = Ok (v, rest).
Proof. exact vi_read_to_bytes. Qed.
Print Assumptions C04_sized_varint_rt.

Theorem C04_int_rt_partial :
  forall f z rest, - 2 ^ 63 <= z < 2 ^ 63 -> decode_object (S f) (enc_int z ++ rest) = Ok (CInt z, rest).
Proof. exact int_rt. Qed.
Print Assumptions C04_int_rt_partial.

Theorem C04_uint_rt_partial :
  forall f z rest, 0 <= z < 2 ^ 64 -> decode_object (S f) (enc_uint z ++ rest) = Ok (CUint z, rest).
Proof. exact uint_rt. Qed.
Print Assumptions C04_uint_rt_partial.

Theorem C04_float_rt_partial :
  forall f bits rest, 0 <= bits < 2 ^ 64 -> decode_object (S f) (enc_float bits ++ rest) = Ok (CFloat bits, rest).
Proof. exact float_rt. Qed.
Print Assumptions C04_float_rt_partial.

Theorem C04_char_rt_partial :
  forall f z rest, - 2 ^ 31 <= z < 2 ^ 31 -> decode_object (S f) (enc_char z ++ rest) = Ok (CChar z, rest).
Proof. exact char_rt. Qed.
Print Assumptions C04_char_rt_partial.

Theorem C04_string_rt_partial :
  forall f s rest, zlen s < 2 ^ 63 -> decode_object (S f) (enc_string s ++ rest) = Ok (CStr s, rest).
Proof. exact string_rt. Qed.
Print Assumptions C04_string_rt_partial.

Theorem C04_bytes_rt_partial :
  forall f s rest, zlen s < 2 ^ 63 -> decode_object (S f) (enc_bytes s ++ rest) = Ok (CBytes s, rest).
Proof. exact bytes_rt. Qed.
Print Assumptions C04_bytes_rt_partial.

(* arrays and maps nested to any depth over scalars, strings and bytes; the size bound is the one
   the length prefixes can express; map entries in the order the encoder wrote them *)
Theorem C04_container_rt_partial :
  forall n v, (depthm v <= n)%nat -> plainm v = true -> zlen (encode v) < 2 ^ 62 ->
  forall f rest, (n <= f)%nat -> decode_object (S f) (encode v ++ rest) = Ok (v, rest).
Proof. exact plainm_rt. Qed.
Print Assumptions C04_container_rt_partial.

(* a compiled function: every field written by the encoder is read back *)
Theorem C04_cfunc_rt_partial :
  forall f fn rest, wf_cfunc fn -> zlen (enc_cfunc_body enc_bytes fn) < 2 ^ 62 ->
  decode_object (S (S f)) (encode (CCompiled fn) ++ rest) = Ok (CCompiled fn, rest).
Proof. exact cfunc_rt. Qed.
Print Assumptions C04_cfunc_rt_partial.

Example C04_cfunc_example :
  let fn := {| cf_params := 2; cf_locals := 5; cf_insts := Some [1; 0; 3; 42]; cf_variadic := true; cf_srcmap := Some [(0, 17); (3, 25)] |} in
  decode (encode (CCompiled fn) ++ [9]) = Ok (CCompiled fn, [9]) /\
  decode (encode (CCompiled empty_cfunc)) = Ok (CCompiled empty_cfunc, []).
Proof. vm_compute. split; reflexivity. Qed.

Example C04_object_example :
  let v := CArr [CSyncMap None; CSyncMap (Some []); CSyncMap (Some [([97], CFunc [102]); ([], CBuiltin [108; 101; 110])]);
                 CMap [([99], CCompiled empty_cfunc); ([100], CArr [CStr [120]; CChar (-1)])]] in
  okv v /\ depthf v = 3%nat /\ decode (encode v ++ [7]) = Ok (v, [7]).
Proof.
  cbv zeta. split; [|split; vm_compute; reflexivity].
  assert (Hwf: wf_cfunc empty_cfunc).
  { unfold wf_cfunc, empty_cfunc. cbn [cf_params cf_locals cf_insts cf_srcmap]. split; [lia|]. split; [lia|]. split; intros x E; discriminate. }
  cbn [okv snd]. repeat match goal with |- _ /\ _ => split end; try exact I; try lia; exact Hwf.
Qed.

Example C04_container_example :
  let v := CArr [CInt (-5); CMap [([107], CArr [CStr [104; 105]; CArr []; CFloat 9223372036854775808]); ([], CMap [])]; CBytes []] in
  plainm v = true /\ depthm v = 4%nat /\ decode (encode v ++ [1; 2]) = Ok (v, [1; 2]).
Proof. vm_compute. repeat split; reflexivity. Qed.

(* the sign of negative zero survives (the defect D04 of the unrepaired encoder) *)
Example C04_negative_zero :
  decode (encode (CFloat (2 ^ 63))) = Ok (CFloat (2 ^ 63), []) /\ encode (CFloat (2 ^ 63)) <> encode (CFloat 0).
Proof. split; [vm_compute; reflexivity | vm_compute; discriminate]. Qed.

(* nested instance, by computation *)
Example C04_nested_example :
  let v := CArr [CMap [([97], CInt (-5)); ([], CArr [])]; CSyncMap None; CStr [255; 0];
                 CCompiled {| cf_params := 1; cf_locals := 2; cf_insts := Some [1; 2]; cf_variadic := true;
                              cf_srcmap := Some [(0, 5); (3, 7)] |}] in
  decode (encode v) = Ok (v, []).
Proof. vm_compute. reflexivity. Qed.
