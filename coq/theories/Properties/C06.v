(* Property C06: with recovery enabled, running a script never panics the host.
   Status: PARTIAL.  The VM's instruction set is not modelled as a whole.  Proved over the model
   of the operators (Value/Ops.v, tied to the implementation by the exhaustive C15 check): no
   binary or unary operator on any operands is a Go panic - the operator panics named by the
   property (remainder by zero, negative shift) are uGO errors; over the model of Run's
   epilogue: reading the result never indexes below the stack on any exit with sp >= 1, and a
   full stack is reported as an error; handlePanic hands a panic to a script handler only in
   states where the unwinding code can index the stack and frame arrays.
   Decided on every run on the implementation under recover(): programs built to fail at every
   resource edge (call depth 1000..1025, frames of 1..250 locals recursing to the 2048-slot
   limit with a callback panic at the edge, literals and calls of 2030..5000 values, Go
   callbacks that panic, throws and panics inside catch and finally), bare and inside every
   handler shape, followed by a known script on the same VM. *)
From Coq Require Import List ZArith Bool.
From Ugo Require Import Base.Res Value.PValue Value.Ops Value.OpsProofs VM.RunReset VM.RunResetProofs.
Import ListNotations.
Local Open Scope Z_scope.

Theorem C06_operators_never_panic :
  forall t a b, is_panic (binop t a b) = false /\ is_panic (unop t a) = false.
Proof. intros t a b. split; [apply binop_no_panic | apply unop_no_panic]. Qed.
Print Assumptions C06_operators_never_panic.

Theorem C06_epilogue_no_panic_partial :
  forall s, 1 <= v_sp s -> is_panic (run_epilogue s) = false.
Proof. exact run_epilogue_no_panic. Qed.
Print Assumptions C06_epilogue_no_panic_partial.

Theorem C06_unwind_only_in_bounds_partial :
  forall s, can_unwind s = true -> v_sp s < stack_size /\ v_frame_index s <= frame_size /\ v_err s = None.
Proof. exact can_unwind_bounds. Qed.
Print Assumptions C06_unwind_only_in_bounds_partial.

Example C06_operator_errors :
  binop TRem (PInt 1) (PInt 0) = Err err_zero_division /\ binop TShl (PUint 1) (PInt (-1)) = Ok (PUint 0) /\
  binop TShl (PInt 1) (PInt (-1)) = Err err_negative_shift.
Proof. vm_compute. repeat split; reflexivity. Qed.
