(* Property C15: operators obey their algebraic laws and the documented numeric
   semantics.  Statements only; every proof is `exact <lemma>`.
   The model (Value/Ops.v) follows numeric.go / objects.go / vm.go method by method and is
   compared with the implementation on every run (pool x pool x operators, exhaustive). *)
From Coq Require Import List ZArith Bool String Floats.SpecFloat.
From Ugo Require Import Base.Res Base.GoInt Base.GoFloat Value.PValue Value.Ops Value.OpsSpec Value.OpsProofs.
Import ListNotations.
Local Open Scope Z_scope.

(* a == b gives the same answer as b == a, for all values (map keys unique, as in any Go map) *)
Theorem C15_equal_sym :
  forall a b, wfb a = true -> wfb b = true -> equal a b = equal b a.
Proof. exact equal_sym. Qed.
Print Assumptions C15_equal_sym.

(* a != b is the negation of a == b (VM dispatch level) *)
Theorem C15_neq_negb :
  forall a b, vm_not_equal a b = PBool (negb (match vm_equal a b with PBool x => x | _ => false end)).
Proof. exact neq_negb. Qed.
Print Assumptions C15_neq_negb.

(* whenever <, <=, >, >= are all defined for a pair (in both orders), NaN aside:
   exactly one of a<b, a==b, a>b;  a<=b = a<b or a==b;  a>=b likewise;  a<b = b>a *)
Theorem C15_cmp_laws :
  forall a b, cmp_defined a b = true -> has_nan a = false -> has_nan b = false ->
  exists lt gt, rel TLess a b = Some lt /\ rel TGreater a b = Some gt /\
    one_true lt (equal a b) gt = true /\
    rel TLessEq a b = Some (lt || equal a b) /\
    rel TGreaterEq a b = Some (gt || equal a b) /\
    rel TGreater b a = Some lt.
Proof. exact cmp_laws. Qed.
Print Assumptions C15_cmp_laws.

(* arithmetic, bitwise and shift operators on numeric operands return the result of the Go
   operation after the documented operand conversion (OpsSpec) whenever they return a value *)
Theorem C15_arith_spec :
  forall t a b v, numeric a = true -> numeric b = true -> arith_tok t = true ->
  binop t a b = Ok v -> spec_binop t a b = Some v.
Proof. exact arith_spec. Qed.
Print Assumptions C15_arith_spec.

(* an undefined operation is an error value, never a Go panic ... *)
Theorem C15_binop_no_panic : forall t a b, is_panic (binop t a b) = false.
Proof. exact binop_no_panic. Qed.
Print Assumptions C15_binop_no_panic.

Theorem C15_unop_no_panic : forall t a, is_panic (unop t a) = false.
Proof. exact unop_no_panic. Qed.
Print Assumptions C15_unop_no_panic.

(* ... and on numeric operands it is the documented ZeroDivisionError or TypeError *)
Theorem C15_numeric_errors_documented :
  forall t a b e, numeric a = true -> numeric b = true -> binop t a b = Err e -> documented_error e = true.
Proof. exact numeric_errors_documented. Qed.
Print Assumptions C15_numeric_errors_documented.

(* Non-vacuity *)
Example C15_cmp_defined_example :
  cmp_defined (PInt (-1)) (PUint 18446744073709551615) = true /\
  cmp_defined (PFloat (f64_of_Z 1)) (PInt 1) = true /\
  cmp_defined (PStr (Ops.bs "a")) (PBytes (Ops.bs "b")) = true /\
  cmp_defined PUndef (PArr []) = true.
Proof. vm_compute. repeat split; reflexivity. Qed.
Example C15_wfb_example :
  wfb (PMap [(Ops.bs "a", PArr [PInt 1; PMap []]); (Ops.bs "b", PFloat S754_nan)]) = true.
Proof. vm_compute. reflexivity. Qed.
Example C15_zero_division_example :
  binop TRem (PInt 1) (PInt 0) = Err err_zero_division /\ binop TShl (PInt 1) (PInt (-1)) = Err err_negative_shift /\
  spec_binop TAdd (PInt 5) (PChar 97) = Some (PChar 102).
Proof. vm_compute. repeat split; reflexivity. Qed.
