(* Property C05: Compile is total: bytecode or an error for any input, never a panic.
   Status: PARTIAL.  The scanner, parser and compiler are not modelled.  Proved, over the opcode
   table regenerated from opcodes.go on every run: MakeInstruction never panics on an opcode of
   the table and rejects out-of-range operands with an error (the error that emit now turns
   into a compile error instead of a panic); every instruction it accepts reads back to exactly
   the operands it was given, whatever follows it (so the emitted stream is decodable and the
   validator below sees the operands the compiler meant).  Decided on every run on the
   implementation: no panic / hang / unbounded allocation over boundary scripts at every
   operand-width limit x compiler configurations, generated and mutated programs, token soup
   and arbitrary bytes; and the Coq validator wf_function (every jump target an instruction
   boundary, every constant / local / module / builtin index in range, RETURN-terminated) accepts
   every function of every Bytecode the real compiler returns. *)
From Coq Require Import List ZArith Bool String.
From Ugo Require Import Base.Res Gen.OpTable Byte.Instr Byte.InstrProofs Byte.Wf.
Import ListNotations.
Local Open Scope Z_scope.

Theorem C05_make_instruction_total :
  forall op args, 0 <= op < Z.of_nat (List.length opcodes_v2) ->
  is_panic (make_instruction opcodes_v2 op args) = false.
Proof. exact make_instruction_total. Qed.
Print Assumptions C05_make_instruction_total.

Theorem C05_make_instruction_roundtrip :
  forall op args bytes rest,
  make_instruction opcodes_v2 op args = Ok bytes ->
  exists ws body, widths_of opcodes_v2 op = Some ws /\ bytes = op :: body /\
                  read_operands ws (body ++ rest) = Some args /\
                  Z.of_nat (List.length body) = sumz ws.
Proof. exact make_instruction_roundtrip. Qed.
Print Assumptions C05_make_instruction_roundtrip.

(* the limits of the format: 256 locals do not fit a one-byte operand, 65536 constants do not
   fit two bytes; both are errors, not panics *)
Example C05_limits :
  (exists e, make_instruction opcodes_v2 (opi "OpDefineLocal") [256] = Err e) /\
  (exists e, make_instruction opcodes_v2 (opi "OpCall") [256; 0] = Err e) /\
  (exists e, make_instruction opcodes_v2 (opi "OpArray") [65536] = Err e) /\
  (exists e, make_instruction opcodes_v2 (opi "OpConstant") [65536] = Err e) /\
  make_instruction opcodes_v2 (opi "OpDefineLocal") [255] = Ok [opi "OpDefineLocal"; 255] /\
  make_instruction opcodes_v2 (opi "OpJump") [65536] = Ok [opi "OpJump"; 0; 1; 0; 0].
Proof. vm_compute. repeat split; try (eexists; reflexivity); reflexivity. Qed.

(* the validator accepts a well-formed function and rejects a jump into the middle of an
   instruction and an out-of-range local *)
Example C05_validator :
  let ctx := {| num_constants := 1; num_locals := 1; num_modules := 0; cfun_constants := [] |} in
  wf_function ctx [opi "OpConstant"; 0; 0; opi "OpDefineLocal"; 0; opi "OpJump"; 0; 0; 0; 10; opi "OpReturn"; 0] = true /\
  wf_function ctx [opi "OpConstant"; 0; 0; opi "OpDefineLocal"; 0; opi "OpJump"; 0; 0; 0; 11; opi "OpReturn"; 0] = false /\
  wf_function ctx [opi "OpConstant"; 0; 0; opi "OpDefineLocal"; 1; opi "OpReturn"; 0] = false.
Proof. vm_compute. repeat split; reflexivity. Qed.
