(* C09: Abort and context cancellation are never lost.
   The abort protocol of vm.go (Abort, the flag reset at Run entry, Invoker.acquire, the
   aborted-check of Invoke, the child VM's Run, release) is modelled as a transition system over
   its control points; the theorem quantifies over every interleaving of the aborting goroutine
   with the running one and over everything the script may do (plain instructions, callbacks
   into child VMs, repeated invocations on one acquired child, returning).  The model of the
   pinned commit's protocol (VOrig) is kept: it provably loses aborts, on the schedules the check
   replays against the implementation.  Nested callbacks (a child VM's script calling back again)
   and the timing of Eval.Run's repeated Abort are outside the model (see DESIGN.md). *)
From Coq Require Import List Bool Arith.
From Ugo Require Import Abort.Abort Abort.AbortProofs.
Import ListNotations.

Theorem C09_abort_never_lost : forall s n s',
  reachable VFixed s -> a s = ADone -> step_bound <= n -> rpath VFixed n s s' -> is_done s' = true.
Proof. exact abort_never_lost. Qed.
Print Assumptions C09_abort_never_lost.

(* at most instr_bound further instructions are executed: the bound is part of the computed check *)
Theorem C09_instruction_bound : bounded VFixed = true /\ instr_bound = 1.
Proof. split; [exact bounded_fixed | reflexivity]. Qed.
Print Assumptions C09_instruction_bound.

Theorem C09_stale_flag_cleared : forall c s, rstep VFixed c init_stale = Some s -> root_flag s = false.
Proof. exact stale_flag_cleared. Qed.
Print Assumptions C09_stale_flag_cleared.

Theorem C09_orig_protocol_loses_abort :
  let s := run VOrig lost_schedule init in
  reachable VOrig s /\ a s = ADone /\ forall n, is_done (spin n s) = false.
Proof. exact orig_protocol_loses_abort. Qed.
Print Assumptions C09_orig_protocol_loses_abort.

(* non-vacuity: states with Abort completed are reachable while the root and while a child runs *)
Example C09_abort_states_reachable :
  existsb (fun s => match a s, r s with ADone, CExec => true | _, _ => false end) (states VFixed) = true /\
  existsb (fun s => match a s, r s with ADone, CLoopCheck => true | _, _ => false end) (states VFixed) = true /\
  existsb (fun s => match a s, r s with ADone, RExec => true | _, _ => false end) (states VFixed) = true /\
  existsb (fun s => match a s, r s with AMid, CExec => true | _, _ => false end) (states VFixed) = true.
Proof. vm_compute. repeat split; reflexivity. Qed.
