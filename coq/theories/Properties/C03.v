(* Property C03: finally runs exactly once on every exit path and the pending outcome
   survives it.
   Status: PARTIAL.  The full statement (C03_finally_once_full) says that the handler machine
   running the compiled skeleton agrees with the specification for every program, hence for
   every nesting and every history of the activation; it is kept here as a definition and is
   decided on every run by exhaustive comparison implementation = SkelVM = SkelSem over all
   skeletons up to a node bound (a bounded check, not a proof).  What is proved for all
   programs: the specification-level statements that finally events occur exactly once and the
   pending outcome survives, that a caught error is not raised again, and the machine-level
   lemma that a completed try statement pops its handler (the cause of the defects D03a-c). *)
From Coq Require Import List ZArith Bool.
From Ugo Require Import Skel.Skel Skel.SkelProofs.
Import ListNotations.
Local Open Scope Z_scope.

Definition vm_outcome (r : option vmres) : option fsem :=
  match r with Some (Done l o) => Some (l, o) | _ => None end.

(* full statement, not yet proved *)
Definition C03_finally_once_full : Prop :=
  forall p prog, compile_program p = Some prog -> p <> [] ->
  exists fuel, vm_outcome (run_program fuel p) = sem_program p.

Theorem C03_spec_finally_once_partial :
  forall table body catch fb,
  exists lpre opre lf of,
    sem_block table fb = (lf, of) /\
    sem table (STry body catch (Some fb)) = (lpre ++ lf, match of with ONormal => opre | _ => of end) /\
    sem table (STry body catch None) = (lpre, opre).
Proof. exact spec_finally_once. Qed.
Print Assumptions C03_spec_finally_once_partial.

Theorem C03_spec_caught_not_reraised_partial :
  forall table body named cb e l1,
  sem_block table body = (l1, OThrow e) ->
  exists lc oc, sem_block table cb = (lc, oc) /\
    sem table (STry body (Some (named, cb)) None) =
      (l1 ++ (if named : bool then [ECaught e] else []) ++ lc, oc).
Proof. exact spec_caught_not_reraised. Qed.
Print Assumptions C03_spec_caught_not_reraised_partial.

Theorem C03_completed_try_pops_handler_partial :
  forall prog fn ip cd hs h st lp rest lg,
  nth_error prog fn = Some cd -> nth_error cd ip = Some IThrow0 ->
  h_err h = None -> h_has_ret h = false ->
  step prog {| frames := {| f_fn := fn; f_ip := ip; f_handlers := hs ++ [h]; f_stack := st; f_loops := lp |} :: rest;
               vlog := lg |} =
  Running {| frames := {| f_fn := fn; f_ip := S ip; f_handlers := hs; f_stack := st; f_loops := lp |} :: rest;
             vlog := lg |}.
Proof. exact throw0_pops_completed. Qed.
Print Assumptions C03_completed_try_pops_handler_partial.

(* the two shapes of the property text and the break-in-finally shape, on the model *)
Example C03_shapes :
  let p1 := [[STry [] None (Some []);
              STry [SLoop [STry [SBreak] None (Some [SLog 1])]; SLog 2] None (Some [SLog 3])]] in
  let p2 := [[STry [SReturn 1] None (Some [STry [] None (Some [])]); SReturn 2]] in
  let p3 := [[STry [SLoop [STry [] None (Some [SBreak])]; SLog 1] None (Some [SLog 2]); SThrow 9]] in
  vm_outcome (run_program 1000 p1) = sem_program p1 /\
  vm_outcome (run_program 1000 p2) = sem_program p2 /\
  vm_outcome (run_program 1000 p3) = sem_program p3 /\
  sem_program p1 = Some ([ELog 1; ELog 2; ELog 3], ONormal) /\
  sem_program p2 = Some ([], OReturn 1).
Proof. vm_compute. repeat split; reflexivity. Qed.
