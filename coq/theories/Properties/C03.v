(* Property C03: finally runs exactly once on every exit path and the pending outcome
   survives it.
   Proved here for every program, hence for every nesting of try statements, loops and calls and
   every history of the activation (C03_finally_once): the handler machine (the model of
   vm.go's handler stack: SETUPTRY / SETUPCATCH / SETUPFINALLY / THROW 0 / FINALIZER / throw across
   frames) running the compiled skeleton produces exactly the event log and the outcome of the
   specification SkelSem, in which a finally block runs once after body and catch whatever their
   outcome, a pending break / continue / return / error survives a finally block that completes
   normally, and a caught error is not raised again.  The simulation is proved for the declarative
   compiler [dcomp] (every jump target computed from the sizes of the parts); the emit-and-patch
   compiler [compile], written after compiler_nodes.go, is proved to emit the same code
   (C03_compilers_agree), so the statement holds for it as well (C03_finally_once_patching).  The
   machine model and the compiler model are compared with the real VM on every skeleton the check
   enumerates.
   Skeletons abstract values to atoms (DESIGN.md, C03): the theorem is about control flow. *)
From Coq Require Import List ZArith Bool.
From Ugo Require Import Skel.Skel Skel.SkelProofs Skel.SkelDecl Skel.SkelSim Skel.SkelDeclEq.
Import ListNotations.
Local Open Scope Z_scope.

Definition vm_outcome (r : option vmres) : option fsem :=
  match r with Some (Done l o) => Some (l, o) | _ => None end.

(* well-formed: break / continue only inside loops (the compiler rejects anything else), calls only
   to functions defined earlier *)
Theorem C03_finally_once : forall p, wf_program p = true -> p <> [] ->
  exists fuel,
    match run fuel (dcompile_program p)
              {| frames := [{| f_fn := (length (dcompile_program p) - 1)%nat; f_ip := 0; f_handlers := []; f_stack := []; f_loops := [] |}];
                 vlog := [] |} with
    | Done l o => sem_program p = Some (l, o)
    | _ => False
    end.
Proof. exact simulation. Qed.
Print Assumptions C03_finally_once.

(* the emit-and-patch compiler (emit, remember the position, patch the operand later: the structure
   of compileTryStmt / compileBranchStmt / compileForStmt) produces exactly the declarative code *)
Theorem C03_compilers_agree : forall p, wf_program p = true -> compile_program p = Some (dcompile_program p).
Proof. exact compile_program_eq. Qed.
Print Assumptions C03_compilers_agree.

(* hence the same statement for the emit-and-patch compiler and its runner *)
Theorem C03_finally_once_patching : forall p, wf_program p = true -> p <> [] ->
  exists fuel, match run_program fuel p with Some (Done l o) => sem_program p = Some (l, o) | _ => False end.
Proof. exact simulation_patching. Qed.
Print Assumptions C03_finally_once_patching.

Theorem C03_spec_finally_once :
  forall table body catch fb,
  exists lpre opre lf of,
    sem_block table fb = (lf, of) /\
    sem table (STry body catch (Some fb)) = (lpre ++ lf, match of with ONormal => opre | _ => of end) /\
    sem table (STry body catch None) = (lpre, opre).
Proof. exact spec_finally_once. Qed.
Print Assumptions C03_spec_finally_once.

Theorem C03_spec_caught_not_reraised :
  forall table body named cb e l1,
  sem_block table body = (l1, OThrow e) ->
  exists lc oc, sem_block table cb = (lc, oc) /\
    sem table (STry body (Some (named, cb)) None) =
      (l1 ++ (if named : bool then [ECaught e] else []) ++ lc, oc).
Proof. exact spec_caught_not_reraised. Qed.
Print Assumptions C03_spec_caught_not_reraised.

Theorem C03_completed_try_pops_handler :
  forall prog fn ip cd hs h st lp rest lg,
  nth_error prog fn = Some cd -> nth_error cd ip = Some IThrow0 ->
  h_err h = None -> h_has_ret h = false ->
  step prog {| frames := {| f_fn := fn; f_ip := ip; f_handlers := hs ++ [h]; f_stack := st; f_loops := lp |} :: rest;
               vlog := lg |} =
  Running {| frames := {| f_fn := fn; f_ip := S ip; f_handlers := hs; f_stack := st; f_loops := lp |} :: rest;
             vlog := lg |}.
Proof. exact throw0_pops_completed. Qed.
Print Assumptions C03_completed_try_pops_handler.

(* the two shapes of the property text and the break-in-finally shape, on the model *)
Example C03_compilers_agree_example :
  let p := [[SLog 1; SReturn 4]; [STry [] None (Some []);
              STry [SLoop [STry [SBreak] None (Some [SLog 1]); SContinue]; SLog 2; SCall 0] (Some (true, [SLoop [SReturn 2]])) (Some [SLog 3])];
            [STry [SReturn 1] None (Some [STry [] None (Some [])]); SReturn 2]] in
  wf_program p = true /\ compile_program p = Some (dcompile_program p).
Proof. vm_compute. split; reflexivity. Qed.

Example C03_shapes :
  let p1 := [[STry [] None (Some []);
              STry [SLoop [STry [SBreak] None (Some [SLog 1])]; SLog 2] None (Some [SLog 3])]] in
  let p2 := [[STry [SReturn 1] None (Some [STry [] None (Some [])]); SReturn 2]] in
  let p3 := [[STry [SLoop [STry [] None (Some [SBreak])]; SLog 1] None (Some [SLog 2]); SThrow 9]] in
  vm_outcome (run_program 1000 p1) = sem_program p1 /\
  vm_outcome (run_program 1000 p2) = sem_program p2 /\
  vm_outcome (run_program 1000 p3) = sem_program p3 /\
  sem_program p1 = Some ([ELog 1; ELog 2; ELog 3], ONormal) /\
  sem_program p2 = Some ([], OReturn 1).
Proof. vm_compute. repeat split; reflexivity. Qed.
