(* Property C10: evaluating fragments one by one equals evaluating them as one script.
   Status: PARTIAL.  An Eval session compiles every fragment against the same root symbol
   table; proved over the symbol table machine (Comp/SymTab.v, compared with the real table on
   generated operation histories by the C13 check): a variable, constant or global bound at the
   top level is never rebound, moved or removed by ANY later operation history - so names
   declared by an earlier fragment keep their slot, scope and constness in every later
   fragment (root_symbol_stable_history), and builtins disabled at the root stay unreachable
   (C13).  The carried run-time state (locals array with pointer boxes, constants, module
   cache, fixOpPop) is decided on every run by differential execution: every fragment's value
   or error and printed output in one session vs the concatenation run as one script, plus a
   probe of every declared name. *)
From Coq Require Import List ZArith Bool String.
From Ugo Require Import Comp.SymTab Comp.SymTabProofs.
Import ListNotations.
Local Open Scope string_scope.

Theorem C10_root_symbol_stable :
  forall ops s n x,
  root_lookup s n = Some x -> is_builtin_scope x = false ->
  root_lookup (fst (run_ops s ops)) n = Some x.
Proof. exact root_symbol_stable_history. Qed.
Print Assumptions C10_root_symbol_stable.

Example C10_session :
  (* fragment 1 declares a and f; fragment 2 opens a block reusing slots, a function scope
     capturing a, and declares b: a and f keep slot 0 and 1 *)
  let s1 := fst (run_ops new_symbol_table [ODefineLocal "a"; ODefineLocal "f"]) in
  let s2 := fst (run_ops s1 [OFork true; ODefineLocal "t"; OLeave; OFork false; OResolve "a"; OLeave; ODefineLocal "b"]) in
  root_lookup s1 "a" = root_lookup s2 "a" /\ root_lookup s2 "f" = Some {| s_name := "f"; s_index := 1; s_scope := ScLocal; s_const := false |}
  /\ root_lookup s2 "b" = Some {| s_name := "b"; s_index := 2; s_scope := ScLocal; s_const := false |}.
Proof. vm_compute. repeat split; reflexivity. Qed.
