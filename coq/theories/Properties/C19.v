(* C19: builtin and standard-library functions are total over their arguments.
   Proved here: (1) every generated adapter and time method of the tables regenerated from the
   current source checks the argument count before any argument access, so for every argument
   list - however split between fixed and variadic arguments - it returns the
   wrong-number-of-arguments error, a type error, or reaches its body, and never panics in
   Call.Get; (2) the size-driven functions (repeat, :makeArray, strings.Repeat, PadLeft/PadRight)
   keep every call into the Go runtime / standard library inside its domain for all lengths and
   all 64 bit counts.  The hand-written bodies behind the adapters are covered by the exhaustive
   enumeration of the check, not by a theorem (see DESIGN.md). *)
From Coq Require Import List ZArith Bool String.
From Ugo Require Import Base.Res Gen.Adapters Builtin.Adapter Builtin.AdapterProofs Builtin.SizeGuard Builtin.SizeGuardProofs.
Import ListNotations.
Local Open Scope Z_scope.

Theorem C19_adapters_never_panic : forall name s args vargs,
  In (name, s) adapters -> is_panic (run_adapter s args vargs) = false.
Proof. exact adapters_never_panic. Qed.
Print Assumptions C19_adapters_never_panic.

Theorem C19_callable_adapter_never_panics : forall cid ex s args vargs,
  callable_adapter cid ex = Some s -> is_panic (run_adapter s args vargs) = false.
Proof. exact callable_adapter_never_panics. Qed.
Print Assumptions C19_callable_adapter_never_panics.

Theorem C19_adapter_arity : forall (s : spec) args vargs,
  let n := snd (fst s) in
  let k := Z.of_nat (List.length args + List.length vargs) in
  (k <> n -> run_adapter s args vargs = Ok (OWrongNum n k)) /\
  (k = n -> forall w g, run_adapter s args vargs <> Ok (OWrongNum w g)).
Proof. exact adapter_arity. Qed.
Print Assumptions C19_adapter_arity.

Theorem C19_repeat_no_panic : forall k len count,
  0 <= len <= M48 -> - 9223372036854775808 <= count < 9223372036854775808 ->
  is_panic (repeat_model k len count) = false /\
  (forall n, repeat_model k len count = Ok n -> n = len * count /\ 0 <= n <= max_alloc_len).
Proof. exact repeat_no_panic. Qed.
Print Assumptions C19_repeat_no_panic.

Theorem C19_make_array_no_panic : forall n arr,
  (forall L, arr = Some L -> 0 <= L) -> is_panic (make_array_model n arr) = false.
Proof. exact make_array_no_panic. Qed.
Print Assumptions C19_make_array_no_panic.

Theorem C19_strings_repeat_no_panic : forall len count,
  0 <= len <= M48 -> - 9223372036854775808 <= count < 9223372036854775808 ->
  is_panic (strings_repeat_model len count) = false.
Proof. exact strings_repeat_no_panic. Qed.
Print Assumptions C19_strings_repeat_no_panic.

Theorem C19_pad_no_panic : forall ls padLen lp has_pad,
  0 <= ls <= M48 -> 0 <= lp <= M48 / 4 -> - 9223372036854775808 <= padLen < 9223372036854775808 ->
  is_panic (pad_model ls padLen lp has_pad) = false /\
  (forall n, pad_model ls padLen lp has_pad = Ok n -> n = ls \/ n = padLen).
Proof. exact pad_no_panic. Qed.
Print Assumptions C19_pad_no_panic.

(* non-vacuity: the table is not empty, an adapter reaches its body on a matching call and the
   guards reject the documented overflow input *)
Example C19_table_nonempty : (40 <=? Z.of_nat (List.length adapters)) = true /\ (150 <=? Z.of_nat (List.length callables)) = true.
Proof. vm_compute. split; reflexivity. Qed.
Example C19_repeat_rejects_overflow :
  repeat_model RString 2 (2 ^ 62) = Err err_too_large /\ repeat_model RString 2 3 = Ok 6 /\
  pad_model 1 (- 2 ^ 63) 1 false = Ok 1 /\ pad_model 1 (2 ^ 62) 1 false = Err err_too_large.
Proof. vm_compute. repeat split; reflexivity. Qed.
