(* C02: compiled execution follows the documented source-level semantics.
   The semantics is given independently of the compiler and VM as a definitional interpreter
   (Sem/Sem.v); the check compares it with compiled execution (optimised and not) on generated
   programs.  Proved here, over all histories of symbol table operations (the model tied to
   symbol_table.go by the C13/C10 correspondence): local variables that are live together in one
   function never share a stack slot, although slots are re-used after a block is left - the
   invariant behind "lexical block scoping ... blocks re-using local slots".  Argument binding
   (fixed / variadic / spread) is proved in Properties/C14.v.  The examples below evaluate the
   documented rules on the interpreter; they are tests of the definition, not theorems about
   the compiler (see DESIGN.md for what is and is not proved). *)
From Coq Require Import List ZArith Bool String.
From Ugo Require Import Base.Res Value.PValue Value.Ops Comp.SymTab Comp.SlotProofs Sem.Sem Sem.SemOps ExprComp.ExprComp ExprComp.ExprCompProofs ExprComp.StmtComp ExprComp.StmtCompProofs ExprComp.RunProofs.
Import ListNotations.
Local Open Scope string_scope.

Theorem C02_live_locals_distinct : forall ops,
  let s := fst (run_ops new_symbol_table ops) in
  forall t1 r1 t2 r2 n1 n2 sym1 sym2,
    In (t1, r1) (fn_segment s) -> In (t2, r2) (fn_segment s) ->
    lookup n1 (t_store t1) = Some sym1 -> lookup n2 (t_store t2) = Some sym2 ->
    is_local sym1 = true -> is_local sym2 = true ->
    s_index sym1 = s_index sym2 -> List.length r1 = List.length r2 /\ n1 = n2.
Proof. exact live_locals_distinct. Qed.
Print Assumptions C02_live_locals_distinct.

(* Compiler correctness for the expression fragment (constants, locals, every binary and unary
   operator, == / !=, short-circuit && / ||, the conditional expression): the code which the
   compiler model emits for e at any byte position, embedded in any surrounding code, run by the
   machine model from any stack, pushes exactly the source-level value of e and stops right after
   the code; an operator error is thrown as the same error.  The compiler model is compared with
   the real compiler instruction by instruction (positions, operands, jump targets) and the
   machine model with the real VM on every run of the check.  Operators are those of the operator
   model of C15. *)
Theorem C02_expr_compile_correct : forall consts locals e pre post st,
  runs consts locals (pre ++ xcompile (xcsize pre) e ++ post) (xcsize pre) e st.
Proof. exact compile_correct. Qed.
Print Assumptions C02_expr_compile_correct.

(* the interpreter's operators on the values of its fragment are those of the operator model *)
Theorem C02_sem_operators_agree : forall op t x y r,
  tok_of op = Some t -> sem_binop op (VInt x) (VInt y) = Some r ->
  exists p, pv r = Some p /\ binop t (PInt x) (PInt y) = Ok p.
Proof. exact sem_binop_int_agrees. Qed.
Print Assumptions C02_sem_operators_agree.

Example C02_expr_example :
  let e := XCond (XBin TLess (XLocal 0) (XConst 0)) (XAnd (XLocal 1) (XConst 1)) (XUn TSub (XLocal 0)) in
  xceval [PInt 5; PInt 7] [PInt 3; PInt 0] e = Ok (PInt 0) /\
  xmrun 100 [PInt 5; PInt 7] (xcompile 0 e) (xcsize (xcompile 0 e)) (XRunning 0 [PInt 3; PInt 0] []) = XRunning 31 [PInt 3; PInt 0] [PInt 0].
Proof. vm_compute. split; reflexivity. Qed.

(* Compiler correctness for statements over local variables (assignment and definition of a
   local, expression statements, if / else if / else, for loops with break and continue, return):
   whenever the source-level execution of a well-formed statement terminates (any fuel), the
   machine running the code which the compiler model emits for it - at any byte position,
   embedded in any surrounding code, with any jump targets for break and continue - reaches the
   position after the code with the same locals (normal end), the break / continue target with
   the same locals, the returned value, or the same thrown error.  Well-formed: the post
   statement of a loop is a simple statement, as the parser guarantees.  The compiler model is
   compared with the real compiler instruction by instruction (slots, byte positions, jump
   targets) and all three executions (real VM, machine model, source level) are compared on
   every run of the check. *)
Theorem C02_stmt_compile_correct : forall consts fuel s locals pre post brk cont st,
  sruns consts fuel (pre ++ scompile (xcsize pre) brk cont s ++ post) (xcsize pre) brk cont s locals st.
Proof. exact scompile_correct. Qed.
Print Assumptions C02_stmt_compile_correct.

(* a whole function body: code at position 0, empty stack *)
Theorem C02_function_body_correct : forall consts fuel s locals, wf s = true ->
  match sexec fuel consts locals s with
  | Ok (QReturn v, _) => mstar consts (scompile 0 0 0 s) (XRunning 0 locals []) (XReturned v)
  | Ok (QNormal, l') => mstar consts (scompile 0 0 0 s) (XRunning 0 locals []) (XRunning (ssize s) l' [])
  | Ok (_, _) => True
  | Err e => mstar consts (scompile 0 0 0 s) (XRunning 0 locals []) (XThrown e)
  | _ => True
  end.
Proof. exact function_body_correct. Qed.
Print Assumptions C02_function_body_correct.

(* the same for the bounded runner xmrun, the function which the check executes on the model's code:
   with enough fuel it returns the value, or throws the error, of the source-level execution *)
Theorem C02_function_body_runs : forall consts fuel s locals, wf s = true ->
  match sexec fuel consts locals s with
  | Ok (QReturn v, _) => exists n, xmrun n consts (scompile 0 0 0 s) (ssize s) (XRunning 0 locals []) = XReturned v
  | Err e => exists n, xmrun n consts (scompile 0 0 0 s) (ssize s) (XRunning 0 locals []) = XThrown e
  | _ => True
  end.
Proof. exact function_body_runs. Qed.
Print Assumptions C02_function_body_runs.

(* non-vacuity: s := 0; for i := 0; i < 3; i = i + 1 { if i == 1 { continue }; s = s + i }; return s
   (locals: s = 0, i = 1; constants 0 3 1) is well-formed, returns 2 at source level, and the
   machine run on the emitted code returns 2 *)
Example C02_stmt_example :
  let k0 := XConst 0 in let k3 := XConst 1 in let k1 := XConst 2 in
  let s := TSeq (TDef 0 k0) (TSeq (TDef 1 k0)
             (TSeq (TFor (XBin TLess (XLocal 1) k3)
                         (TSeq (TIf (XEq (XLocal 1) k1) TContinue) (TSet 0 (XBin TAdd (XLocal 0) (XLocal 1))))
                         (TSet 1 (XBin TAdd (XLocal 1) k1)))
                   (TRet (XLocal 0)))) in
  let consts := [PInt 0; PInt 3; PInt 1] in
  wf s = true /\
  sexec 100 consts [PUndef; PUndef] s = Ok (QReturn (PInt 2), [PInt 2; PInt 3]) /\
  xmrun 1000 consts (scompile 0 0 0 s) (xcsize (scompile 0 0 0 s)) (XRunning 0 [PUndef; PUndef] []) = XReturned (PInt 2).
Proof. vm_compute. repeat split; reflexivity. Qed.

(* non-vacuity: slots are re-used by sibling blocks and distinct in nested ones *)
Example C02_slot_reuse :
  let '(_, rs) := run_ops new_symbol_table
      [ODefineLocal "a"; OFork true; ODefineLocal "b"; OFork true; ODefineLocal "c"; OLeave; OLeave; OFork true; ODefineLocal "d"] in
  map (fun r => match r with RSym sym _ => s_index sym | _ => (-1)%Z end) rs = [0; -1; 1; -1; 2; -1; -1; -1; 1]%Z.
Proof. vm_compute. reflexivity. Qed.

(* documented rules evaluated on the definition *)
Definition v (x : string) := XVarE x.
Definition call f args := XCallE f args None.

(* f = func(n) { if n == 0 { return 5 }; f(n-1) }; f(3)  is undefined: a discarded self call is not a tail call *)
Example C02_sem_discarded_self_call :
  sem_run_program 200
    [TVarS "f" None;
     TAssignS "f" (XFuncE ["n"] false [TIfS (XBinE OBEq (v "n") (XIntE 0)) [TReturnS (Some (XIntE 5))] [];
                                      TExprS (call (v "f") [XBinE OBSub (v "n") (XIntE 1)])]);
     TReturnS (Some (call (v "f") [XIntE 3]))] = PValue OBUndef.
Proof. vm_compute. reflexivity. Qed.

(* a[log(1)] = log(2): the right-hand side is evaluated before the target *)
Example C02_sem_rhs_before_target :
  sem_run_program 200
    [TDefineS "out" (XArrE []);
     TDefineS "log" (XFuncE ["x"] false [TAssignS "out" (XAppendE (v "out") [v "x"]); TReturnS (Some (v "x"))]);
     TDefineS "a" (XArrE [XIntE 0; XIntE 0; XIntE 0]);
     TIndexAssignS (v "a") (call (v "log") [XIntE 1]) (call (v "log") [XIntE 2]);
     TReturnS (Some (XArrE [v "out"; v "a"]))]
  = PValue (OBArr [OBArr [OBInt 2; OBInt 1]; OBArr [OBInt 0; OBInt 2; OBInt 0]]).
Proof. vm_compute. reflexivity. Qed.

(* one fresh variable per executed declaration, the loop variable itself is one variable *)
Example C02_sem_closures_per_iteration :
  sem_run_program 400
    [TDefineS "fs" (XArrE []);
     TForS (Some (TDefineS "i" (XIntE 0))) (Some (XBinE OBLt (v "i") (XIntE 3))) (Some (TOpAssignS "i" OBAdd (XIntE 1)))
       [TDefineS "w" (v "i"); TAssignS "fs" (XAppendE (v "fs") [XFuncE [] false [TReturnS (Some (XArrE [v "i"; v "w"]))]])];
     TReturnS (Some (XArrE [call (XIndexE (v "fs") (XIntE 0)) []; call (XIndexE (v "fs") (XIntE 2)) []]))]
  = PValue (OBArr [OBArr [OBInt 3; OBInt 0]; OBArr [OBInt 3; OBInt 2]]).
Proof. vm_compute. reflexivity. Qed.
