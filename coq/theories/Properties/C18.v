(* Property C18: decoding malformed bytecode returns an error, never a panic.
   The decoder model (Codec/Obj.v) returns GoPanic wherever the Go code would panic: slice
   expressions out of range, make with a bad size, failed type assertions, toVarint on an
   empty slice.  Theorem: for every byte string and every fuel the object decoder does not
   panic.  The model is tied to the implementation by decoding the same mutated inputs on
   both sides (outcome class and value).  The Bytecode container / file set decoders and the
   allocation bound are decided by exhaustive single-byte corruption and truncation of real
   encodings under recover with allocation measurement (observed, not proved). *)
From Coq Require Import List ZArith Bool.
From Ugo Require Import Base.Res Codec.Varint Codec.Obj Codec.ObjProofs Byte.V1Conv.
Import ListNotations.
Local Open Scope Z_scope.

Theorem C18_decode_object_no_panic : forall fuel r, is_panic (decode_object fuel r) = false.
Proof. exact decode_object_no_panic. Qed.
Print Assumptions C18_decode_object_no_panic.

Theorem C18_decode_no_panic : forall r, is_panic (decode r) = false.
Proof. exact decode_no_panic. Qed.
Print Assumptions C18_decode_no_panic.

(* every size the decoder slices by has been checked against the data *)
Theorem C18_sized_payload_no_panic : forall data, is_panic (dec_sized_payload data) = false.
Proof. exact dec_sized_payload_no_panic. Qed.
Print Assumptions C18_sized_payload_no_panic.

(* non-vacuity: hostile inputs of the kinds that used to panic *)
Example C18_hostile_inputs :
  (* string with a size larger than the data *)
  (exists e, decode [7; 1; 126] = Err e) /\
  (* array announcing 2^62 elements *)
  (exists e, decode [9; 10; 9; 128; 128; 128; 128; 128; 128; 128; 128; 64; 0] = Err e) /\
  (* compiled function whose instructions field holds an int *)
  (exists e, decode [12; 1; 6; 2; 3; 1; 2] = Err e) /\
  (* version 1 instruction stream with an unknown opcode / truncated operand *)
  (exists e, conv_comp_func [200] [] = Err e) /\ (exists e, conv_comp_func [12; 0] [] = Err e).
Proof. vm_compute. repeat split; eexists; reflexivity. Qed.
