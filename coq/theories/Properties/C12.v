(* Property C12: a module is loaded once per run and every import sees the same object.
   Proved over the model of the compiler's module store and of the VM's module cache protocol
   (LOADMODULE i; JUMPFALSY; CALL body; STOREMODULE i):
   - whatever the order in which import expressions are compiled (main script, functions,
     modules compiled by forks sharing the store), two requests get the same cache index iff
     they name the same module, and every index is below the store's count;
   - in one run, for ANY execution order of import sites, no module body executes twice and
     any two imports of one module evaluate to the same object (the one kept in the cache).
   - file modules (importers.FileImporter): the name under which a file is kept in the module
     store is a function of the place the import denotes - start at the root, walk through the
     process directory, the work directory of the importing file and the import name, "." stays,
     ".." goes up - so however an import is spelled (redundant "." and "x/.." elements, climbing
     above the work directory and coming back, absolute or relative), one file is one module.
   Isolation of module scopes, cycle / unknown-module detection, privacy of builtin module
   values per VM and the serialization round trip are decided on generated import graphs on
   every run (observed part: partial). *)
From Coq Require Import List ZArith Bool String.
From Ugo Require Import Comp.ModStore Comp.ModStoreProofs Comp.ImportPath Comp.ImportPathProofs.
Import ListNotations.
Local Open Scope Z_scope.

Theorem C12_module_index_unique :
  forall reqs ms its,
  import_all empty_store reqs = (ms, its) ->
  forall i j r1 r2 it1 it2,
    nth_error reqs i = Some r1 -> nth_error reqs j = Some r2 ->
    nth_error its i = Some it1 -> nth_error its j = Some it2 ->
    (m_index it1 = m_index it2 <-> fst (fst r1) = fst (fst r2)) /\ 0 <= m_index it1 < ms_count ms.
Proof. exact module_index_unique. Qed.
Print Assumptions C12_module_index_unique.

Theorem C12_body_at_most_once :
  forall n is s vs,
  exec_imports (init_rstate n) is = (s, vs) ->
  NoDup (execs s) /\
  (forall a b i x y, nth_error is a = Some i -> nth_error is b = Some i ->
                     nth_error vs a = Some (Some x) -> nth_error vs b = Some (Some y) -> x = y).
Proof. exact body_at_most_once. Qed.
Print Assumptions C12_body_at_most_once.

(* module bodies that may throw (an import event says whether the body, if it runs now, throws):
   a body RETURNS at most once and all imports that give a value give the same object; when no
   body throws, a body STARTS at most once (the property as stated) *)
Theorem C12_body_completes_at_most_once :
  forall n evs s vs,
  exec_imports_t (init_tstate n) evs = (s, vs) ->
  NoDup (t_done s) /\
  (forall a b i t1 t2 x y, nth_error evs a = Some (i, t1) -> nth_error evs b = Some (i, t2) ->
                     nth_error vs a = Some (Some x) -> nth_error vs b = Some (Some y) -> x = y).
Proof. exact body_completes_at_most_once. Qed.
Print Assumptions C12_body_completes_at_most_once.

Theorem C12_body_at_most_once_no_throw :
  forall n evs s vs,
  forallb (fun e => negb (snd e)) evs = true ->
  exec_imports_t (init_tstate n) evs = (s, vs) -> NoDup (t_runs s).
Proof. exact body_at_most_once_no_throw. Qed.
Print Assumptions C12_body_at_most_once_no_throw.

(* known finding D12t: with a body that throws, "executes at most once" is false of the
   implementation - the witness (import m; import m, the body throwing both times) is replayed
   on the implementation by the check on every run *)
Theorem C12_body_at_most_once_refuted :
  exists n evs s vs, exec_imports_t (init_tstate n) evs = (s, vs) /\ ~ NoDup (t_runs s).
Proof. exact body_at_most_once_refuted. Qed.
Print Assumptions C12_body_at_most_once_refuted.

(* bodies that execute imports of other modules while they run (a tree of import events), whichever of them throw:
   as long as no event names a module which an enclosing event is loading, a body returns at most once *)
Theorem C12_nested_body_completes_at_most_once :
  forall fuel n e s v,
  noreentry [] e -> exec_nested fuel (init_tstate n) e = (s, v) -> NoDup (t_done s).
Proof. exact nested_body_completes_at_most_once. Qed.
Print Assumptions C12_nested_body_completes_at_most_once.

(* known finding D12r: the events of the theorems above are atomic; a body that reaches - through a
   function value it was given, static cycles are rejected by the compiler - an import of the module
   being loaded starts again, returns twice, and the two imports get different objects.  The witness
   is replayed on the implementation by the check on every run. *)
Theorem C12_reentrant_body_refuted :
  exists e s v,
    exec_nested 10 (init_tstate 1) e = (s, v) /\ ~ NoDup (t_done s) /\
    nth_error (t_cache s) 0 = Some (Some 3%Z) /\
    fst (exec_nested 10 (init_tstate 1) (IEv 0 false [])) <> s.
Proof. exact reentrant_body_refuted. Qed.
Print Assumptions C12_reentrant_body_refuted.

Example C12_diamond :
  (* main imports m1 and m2, both import m3; m3 is requested three times *)
  let '(ms, its) := import_all empty_store [("m1"%string, 1, 0); ("m3"%string, 1, 1); ("m2"%string, 1, 2); ("m3"%string, 1, 9); ("m3"%string, 1, 9)] in
  map m_index its = [0; 1; 2; 1; 1] /\ ms_count ms = 3 /\
  let '(s, vs) := exec_imports (init_rstate 3) [1; 0; 1; 2; 1]%nat in
  execs s = [1; 0; 2] /\ vs = [Some 1; Some 3; Some 1; Some 5; Some 1].
Proof. vm_compute. repeat split; reflexivity. Qed.

(* file modules: the importer's name for (work directory, import name) is the place it denotes *)
Theorem C12_file_name_is_place :
  forall cwd wd name, p_abs cwd = true ->
  fi_name cwd wd name = {| p_abs := true; p_segs := resolve cwd wd name |}.
Proof. exact fi_name_resolve. Qed.
Print Assumptions C12_file_name_is_place.

Theorem C12_file_modules_indexed_by_place :
  forall cwd reqs ms its,
  p_abs cwd = true -> Forall noslash (p_segs cwd) ->
  Forall (fun r => Forall noslash (p_segs (fst (fst r))) /\ Forall noslash (p_segs (snd (fst r)))) reqs ->
  import_all empty_store (file_reqs cwd reqs) = (ms, its) ->
  forall i j wd1 n1 c1 wd2 n2 c2 it1 it2,
    nth_error reqs i = Some (wd1, n1, c1) -> nth_error reqs j = Some (wd2, n2, c2) ->
    nth_error its i = Some it1 -> nth_error its j = Some it2 ->
    (m_index it1 = m_index it2 <-> resolve cwd wd1 n1 = resolve cwd wd2 n2).
Proof. exact file_modules_indexed_by_place. Qed.
Print Assumptions C12_file_modules_indexed_by_place.

Example C12_file_spellings :
  (* process directory /w/p, work directory "." : conf.ugo, ./x/../conf.ugo, ../p/conf.ugo and
     /w/./p//conf.ugo are one file; ../conf.ugo is another *)
  let cwd := {| p_abs := true; p_segs := [""; "w"; "p"]%string |} in
  let wd := {| p_abs := false; p_segs := ["."]%string |} in
  let rel l := {| p_abs := false; p_segs := l |} in
  map (fun n => p_segs (fi_name cwd wd n))
      [rel ["conf.ugo"]; rel ["."; "x"; ".."; "conf.ugo"]; rel [".."; "p"; "conf.ugo"];
       {| p_abs := true; p_segs := [""; "w"; "."; "p"; ""; "conf.ugo"] |}; rel [".."; "conf.ugo"]]%string
  = [["w"; "p"; "conf.ugo"]; ["w"; "p"; "conf.ugo"]; ["w"; "p"; "conf.ugo"]; ["w"; "p"; "conf.ugo"]; ["w"; "conf.ugo"]]%string.
Proof. vm_compute. reflexivity. Qed.
