(* Property C12: a module is loaded once per run and every import sees the same object.
   Proved over the model of the compiler's module store and of the VM's module cache protocol
   (LOADMODULE i; JUMPFALSY; CALL body; STOREMODULE i):
   - whatever the order in which import expressions are compiled (main script, functions,
     modules compiled by forks sharing the store), two requests get the same cache index iff
     they name the same module, and every index is below the store's count;
   - in one run, for ANY execution order of import sites, no module body executes twice and
     any two imports of one module evaluate to the same object (the one kept in the cache).
   Isolation of module scopes, cycle / unknown-module detection, privacy of builtin module
   values per VM and the serialization round trip are decided on generated import graphs on
   every run (observed part: partial). *)
From Coq Require Import List ZArith Bool String.
From Ugo Require Import Comp.ModStore Comp.ModStoreProofs.
Import ListNotations.
Local Open Scope Z_scope.

Theorem C12_module_index_unique :
  forall reqs ms its,
  import_all empty_store reqs = (ms, its) ->
  forall i j r1 r2 it1 it2,
    nth_error reqs i = Some r1 -> nth_error reqs j = Some r2 ->
    nth_error its i = Some it1 -> nth_error its j = Some it2 ->
    (m_index it1 = m_index it2 <-> fst (fst r1) = fst (fst r2)) /\ 0 <= m_index it1 < ms_count ms.
Proof. exact module_index_unique. Qed.
Print Assumptions C12_module_index_unique.

Theorem C12_body_at_most_once :
  forall n is s vs,
  exec_imports (init_rstate n) is = (s, vs) ->
  NoDup (execs s) /\
  (forall a b i x y, nth_error is a = Some i -> nth_error is b = Some i ->
                     nth_error vs a = Some (Some x) -> nth_error vs b = Some (Some y) -> x = y).
Proof. exact body_at_most_once. Qed.
Print Assumptions C12_body_at_most_once.

Example C12_diamond :
  (* main imports m1 and m2, both import m3; m3 is requested three times *)
  let '(ms, its) := import_all empty_store [("m1"%string, 1, 0); ("m3"%string, 1, 1); ("m2"%string, 1, 2); ("m3"%string, 1, 9); ("m3"%string, 1, 9)] in
  map m_index its = [0; 1; 2; 1; 1] /\ ms_count ms = 3 /\
  let '(s, vs) := exec_imports (init_rstate 3) [1; 0; 1; 2; 1]%nat in
  execs s = [1; 0; 2] /\ vs = [Some 1; Some 3; Some 1; Some 5; Some 1].
Proof. vm_compute. repeat split; reflexivity. Qed.
