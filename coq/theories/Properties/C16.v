(* Property C16: runtime errors report the true source locations.
   Status: PARTIAL.  Proved over the model of parser/source_file.go: the hand-inlined binary
   search searchInts returns, on every sorted table, the last entry not above the offset
   (search_ints_spec); unpack therefore returns the unique line that contains an offset and the
   1-based column within it (unpack_correct); prepending k blank lines shifts the line of every
   offset by exactly k and leaves its column unchanged (lines_shift); the reported line:column
   determines the offset again (unpack_inverse), so distinct offsets of a file are never reported
   at the same place (unpack_injective); in a file set laid out as AddFile does (disjoint ranges)
   the file lookup returns exactly the file whose range [base, base+size] contains the position
   and none when no range does (file_of_spec, file_of_unique - the LastFile shortcut therefore
   agrees with the search); every table that AddLine builds, from any offsets in any order, is
   sorted and starts with 0, so the hypotheses above hold of every reachable table (add_lines_ok,
   unpack_correct_reachable); the run-time lookup of the source map returns the position
   recorded at the greatest recorded instruction offset at or below ip, and NoPos only when ip is
   negative or nothing (or NoPos) is recorded there (source_pos_spec).
   The path from scanner offsets through AST positions, the optimizer's replacement literals,
   the compiler's source map and the trace construction
   in throw is decided on every run on generated layouts with independently computed expected
   lines, x optimizer x encode/decode x k prepended lines x source modules. *)
From Coq Require Import List ZArith Bool.
From Ugo Require Import Pos.LineTable Pos.LineTableProofs.
Import ListNotations.
Local Open Scope Z_scope.

Theorem C16_search_ints_spec :
  forall a x, sorted a -> search_ints a x = Z.of_nat (count_le a x) - 1.
Proof. exact search_ints_spec. Qed.
Print Assumptions C16_search_ints_spec.

Theorem C16_unpack_correct :
  forall lines off, sorted lines -> nth 0 lines 1 = 0 -> 0 <= off ->
  exists k, (k < length lines)%nat /\
    unpack lines off = (Z.of_nat k + 1, off - nth k lines 0 + 1) /\
    nth k lines 0 <= off /\ (forall q, (k < q < length lines)%nat -> off < nth q lines 0).
Proof. exact unpack_correct. Qed.
Print Assumptions C16_unpack_correct.

Theorem C16_lines_shift :
  forall k lines off, sorted lines -> nth 0 lines 1 = 0 -> 0 <= off ->
  let '(l1, c1) := unpack lines off in
  unpack (shift_lines k lines) (off + Z.of_nat k) = (l1 + Z.of_nat k, c1).
Proof. exact lines_shift. Qed.
Print Assumptions C16_lines_shift.

Theorem C16_unpack_inverse :
  forall lines off, sorted lines -> nth 0 lines 1 = 0 -> 0 <= off ->
  let '(l, c) := unpack lines off in
  1 <= l <= Z.of_nat (length lines) /\ 1 <= c /\ nth (Z.to_nat (l - 1)) lines 0 + c - 1 = off.
Proof. exact unpack_inverse. Qed.
Print Assumptions C16_unpack_inverse.

Theorem C16_unpack_injective :
  forall lines o1 o2, sorted lines -> nth 0 lines 1 = 0 -> 0 <= o1 -> 0 <= o2 ->
  unpack lines o1 = unpack lines o2 -> o1 = o2.
Proof. exact unpack_injective. Qed.
Print Assumptions C16_unpack_injective.

Theorem C16_file_of_spec :
  forall files p k, files_ok files ->
  (file_of files p = Some k <-> exists b s, nth_error files k = Some (b, s) /\ b <= p <= b + s).
Proof. exact file_of_spec. Qed.
Print Assumptions C16_file_of_spec.

Theorem C16_file_of_unique :
  forall files p k1 k2 b1 s1 b2 s2, files_ok files ->
  nth_error files k1 = Some (b1, s1) -> nth_error files k2 = Some (b2, s2) ->
  b1 <= p <= b1 + s1 -> b2 <= p <= b2 + s2 -> k1 = k2.
Proof. exact file_of_unique. Qed.
Print Assumptions C16_file_of_unique.

(* every line table AddLine can build from AddFile's [0] - any offsets, in any order - meets the
   hypotheses of the theorems above *)
Theorem C16_add_lines_ok :
  forall size offs, sorted (add_lines size offs) /\ nth 0 (add_lines size offs) 1 = 0.
Proof. exact add_lines_ok. Qed.
Print Assumptions C16_add_lines_ok.

Theorem C16_unpack_correct_reachable :
  forall size offs off, 0 <= off ->
  let lines := add_lines size offs in
  exists k, (k < length lines)%nat /\
    unpack lines off = (Z.of_nat k + 1, off - nth k lines 0 + 1) /\
    nth k lines 0 <= off /\ (forall q, (k < q < length lines)%nat -> off < nth q lines 0).
Proof. exact unpack_correct_reachable. Qed.
Print Assumptions C16_unpack_correct_reachable.

(* the nearest-lower lookup of the source map at run time (CompiledFunction.SourcePos) *)
Theorem C16_source_pos_spec :
  forall m ip,
  (0 <= ip /\ exists k, 0 <= k <= ip /\ sm_get m k = Some (source_pos m ip) /\
                        forall j, k < j <= ip -> sm_get m j = None) \/
  (source_pos m ip = 0 /\ forall j, 0 <= j <= ip -> sm_get m j = None).
Proof. exact source_pos_spec. Qed.
Print Assumptions C16_source_pos_spec.

Example C16_table :
  map (source_pos [(0, 5); (3, 9); (7, 12)]) [-1; 0; 2; 3; 6; 7; 100] = [0; 5; 5; 9; 9; 12; 12] /\
  source_pos [(2, 9)] 1 = 0 /\
  add_lines 40 [16; 31; 31; 7; 33; 40; 39] = [0; 16; 31; 33; 39] /\
  file_of [(1, 10); (12, 0); (13, 5)] 12 = Some 1%nat /\ file_of [(1, 10); (12, 0); (13, 5)] 19 = None /\
  file_of [(1, 10); (12, 0); (13, 5)] 1 = Some 0%nat /\ file_of [(1, 10); (12, 0); (13, 5)] 0 = None /\
  unpack [0; 16; 31; 33; 49; 62; 73; 75; 76; 87] 51 = (5, 3) /\
  unpack (shift_lines 3 [0; 16; 31]) (20 + 3) = (5, 5) /\ unpack [0; 16; 31] 20 = (2, 5).
Proof. vm_compute. repeat split; reflexivity. Qed.
