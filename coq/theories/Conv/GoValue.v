(* Model of ugo.ToObject / ToObjectAlt / ToInterface (ugo.go), property C20.
   Definitions only; proofs are in ConvProofs.v. *)
From Coq Require Import List ZArith Bool String Floats.SpecFloat.
From Ugo Require Import Base.Res Base.GoFloat Value.PValue.
Import ListNotations.
Local Open Scope string_scope.

Inductive goval :=
| GNil
| GString (s : bstr)
| GInt64 (z : Z) | GInt (z : Z) | GUint (z : Z) | GUint64 (z : Z) | GUintptr (z : Z)
| GBool (b : bool)
| GInt32 (z : Z)      (* rune *)
| GUint8 (z : Z)      (* byte *)
| GFloat64 (f : spec_float)
| GFloat32 (f : spec_float)   (* a binary32 value, precision-24 representation *)
| GInt8 (z : Z) | GInt16 (z : Z) | GUint16 (z : Z) | GUint32 (z : Z)
| GBytes (o : option bstr)
| GSliceAny (isnil : bool) (l : list goval)      (* isnil = true: nil slice, l = [] *)
| GMapAny (isnil : bool) (l : list (bstr * goval))
| GSliceObj (o : option (list pvalue))
| GMapObj (o : option (list (bstr * pvalue)))
| GObject (v : pvalue)
| GFunc (isnil : bool)
| GError (msg : bstr)
| GDuration (z : Z)
| GReg (tag : bstr) (payload : option bstr)   (* a Go type with a registered converter *)
| GOther (tag : bstr).                         (* any other Go type *)

Definition bs (s : String.string) : bstr := String.list_byte_of_string s.

Definition conv_error (tag : bstr) : uerror :=
  mkErr (bs "error") (bs "cannot convert to object: " ++ tag)%list.

Definition beq (a b : bstr) : bool :=
  if list_eq_dec Byte.byte_eq_dec a b then true else false.

(* registry.ToObject for the converters registered by stdlib/time and stdlib/json *)
Definition registry_to_object (tag : bstr) (payload : option bstr) : option pvalue :=
  if beq tag (bs "time.Time") then
    match payload with Some p => Some (POpaque (bs "time") p) | None => None end
  else if beq tag (bs "*time.Time") then
    match payload with Some p => Some (POpaque (bs "time") p) | None => Some PUndef end
  else if beq tag (bs "*time.Location") then
    match payload with Some p => Some (POpaque (bs "location") p) | None => Some PUndef end
  else if beq tag (bs "json.RawMessage") then
    match payload with Some p => Some (POpaque (bs "rawMessage") p) | None => Some (POpaque (bs "rawMessage") []) end
  else None.

Definition registry_to_interface (tag payload : bstr) : option goval :=
  if beq tag (bs "time") then Some (GReg (bs "time.Time") (Some payload))
  else if beq tag (bs "location") then Some (GReg (bs "*time.Location") (Some payload))
  else if beq tag (bs "rawMessage") then Some (GReg (bs "json.RawMessage") (Some payload))
  else None.

Definition go_type_name (g : goval) : bstr :=
  match g with
  | GInt8 _ => bs "int8" | GInt16 _ => bs "int16" | GUint16 _ => bs "uint16" | GUint32 _ => bs "uint32"
  | GInt32 _ => bs "int32" | GUint8 _ => bs "uint8"
  | GReg tag _ => tag | GOther tag => tag
  | _ => bs "?"
  end.

Definition default_case (g : goval) : res pvalue :=
  match g with
  | GReg tag payload =>
      match registry_to_object tag payload with
      | Some v => Ok v
      | None => Err (conv_error tag)
      end
  | _ => Err (conv_error (go_type_name g))
  end.

Definition opt_list {A} (o : option (list A)) : list A :=
  match o with Some l => l | None => [] end.

Section Conv.
  Variable alt : bool.   (* false: ToObject, true: ToObjectAlt *)

  Fixpoint to_object_gen (g : goval) : res pvalue :=
    match g with
    | GNil => Ok PUndef
    | GString s => Ok (PStr s)
    | GInt64 z | GInt z => Ok (PInt z)
    | GUint z | GUint64 z | GUintptr z => Ok (PUint z)
    | GBool b => Ok (PBool b)
    | GInt32 z => if alt then Ok (PInt z) else Ok (PChar z)
    | GUint8 z => if alt then Ok (PUint z) else Ok (PChar z)
    | GFloat64 f => Ok (PFloat f)
    | GFloat32 f => Ok (PFloat (widen32 f))
    | GInt8 z | GInt16 z => if alt then Ok (PInt z) else default_case g
    | GUint16 z | GUint32 z => if alt then Ok (PUint z) else default_case g
    | GBytes o => Ok (PBytes (opt_list o))
    | GMapObj o => Ok (PMap (opt_list o))
    | GMapAny _ l0 =>
        do m <- (fix go (l : list (bstr * goval)) : res (list (bstr * pvalue)) :=
                   match l with
                   | [] => Ok []
                   | (k, x) :: xs => do y <- to_object_gen x; do ys <- go xs; Ok ((k, y) :: ys)
                   end) l0;
        Ok (PMap m)
    | GSliceObj o => Ok (PArr (opt_list o))
    | GSliceAny _ l0 =>
        do l <- (fix go (l : list goval) : res (list pvalue) :=
                   match l with
                   | [] => Ok []
                   | x :: xs => do y <- to_object_gen x; do ys <- go xs; Ok (y :: ys)
                   end) l0;
        Ok (PArr l)
    | GObject v => Ok v
    | GFunc isnil => if isnil then Ok PUndef else Ok (PFn (bs "gofunc"))
    | GError msg => Ok (PErr 0 [] msg)   (* &Error{Message: v.Error(), Cause: v}: Name stays empty *)
    | GDuration z => Ok (PInt z)
    | GReg _ _ | GOther _ => default_case g
    end.
End Conv.

Definition to_object := to_object_gen false.
Definition to_object_alt := to_object_gen true.

Fixpoint to_interface (v : pvalue) : goval :=
  match v with
  | PInt z => GInt64 z
  | PStr s => GString s
  | PBytes s => GBytes (Some s)
  | PArr l => GSliceAny false (map to_interface l)
  | PMap m => GMapAny false (map (fun kv => (fst kv, to_interface (snd kv))) m)
  | PUint z => GUint64 z
  | PChar z => GInt32 z
  | PFloat f => GFloat64 f
  | PBool b => GBool b
  | PSyncMap m => GMapAny false (map (fun kv => (fst kv, to_interface (snd kv))) m)
  | PUndef => GNil
  | POpaque tag payload =>
      match registry_to_interface tag payload with
      | Some g => g
      | None => GObject v
      end
  | PErr _ _ _ | PRtErr _ _ _ _ | PFn _ => GObject v
  end.

(* Go values made of the canonical counterparts of plain uGO values. *)
Fixpoint canonical (g : goval) : bool :=
  match g with
  | GNil | GString _ | GInt64 _ | GUint64 _ | GFloat64 _ | GBool _ | GInt32 _ | GBytes _ => true
  | GSliceAny _ l => forallb canonical l
  | GMapAny _ l => forallb (fun kv => canonical (snd kv)) l
  | _ => false
  end.

(* equality of Go values up to nil/empty containers *)
Fixpoint geq (a b : goval) {struct a} : Prop :=
  match a, b with
  | GBytes x, GBytes y => opt_list x = opt_list y
  | GSliceAny _ x, GSliceAny _ y =>
      (fix go (l1 l2 : list goval) : Prop :=
         match l1, l2 with
         | [], [] => True
         | x :: xs, y :: ys => geq x y /\ go xs ys
         | _, _ => False
         end) x y
  | GMapAny _ x, GMapAny _ y =>
      (fix go (l1 l2 : list (bstr * goval)) : Prop :=
         match l1, l2 with
         | [], [] => True
         | (k1, x) :: xs, (k2, y) :: ys => k1 = k2 /\ geq x y /\ go xs ys
         | _, _ => False
         end) x y
  | _, _ => a = b
  end.

(* numeric value carried by a Go integer of any width / by a uGO number *)
Definition go_int_val (g : goval) : option Z :=
  match g with
  | GInt64 z | GInt z | GUint z | GUint64 z | GUintptr z | GInt32 z | GUint8 z
  | GInt8 z | GInt16 z | GUint16 z | GUint32 z | GDuration z => Some z
  | _ => None
  end.

Definition p_int_val (v : pvalue) : option Z :=
  match v with PInt z | PUint z | PChar z => Some z | _ => None end.
