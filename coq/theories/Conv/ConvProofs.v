(* Proofs about the conversion model (property C20). *)
From Coq Require Import List ZArith Bool Lia String Floats.SpecFloat.
From Ugo Require Import Base.Res Base.GoFloat Value.PValue Conv.GoValue.
Import ListNotations.

(* ---------- uGO -> Go -> uGO ---------- *)

Lemma to_object_gen_slice alt l :
  to_object_gen alt (GSliceAny false l) =
  (do r <- mapM (to_object_gen alt) l; Ok (PArr r)).
Proof.
  simpl. f_equal. induction l as [|x xs IH]; simpl; [reflexivity|].
  destruct (to_object_gen alt x); simpl; try reflexivity. rewrite IH. reflexivity.
Qed.

Definition mapM_kv {A B} (f : A -> res B) (l : list (bstr * A)) : res (list (bstr * B)) :=
  mapM (fun kv => do y <- f (snd kv); Ok (fst kv, y)) l.

Lemma to_object_gen_map alt b l :
  to_object_gen alt (GMapAny b l) =
  (do r <- mapM_kv (to_object_gen alt) l; Ok (PMap r)).
Proof.
  simpl. f_equal. unfold mapM_kv. induction l as [|[k x] xs IH]; simpl; [reflexivity|].
  destruct (to_object_gen alt x); simpl; try reflexivity. rewrite IH. reflexivity.
Qed.

Lemma to_object_gen_slice' alt b l :
  to_object_gen alt (GSliceAny b l) =
  (do r <- mapM (to_object_gen alt) l; Ok (PArr r)).
Proof.
  simpl. f_equal. induction l as [|x xs IH]; simpl; [reflexivity|].
  destruct (to_object_gen alt x); simpl; try reflexivity. rewrite IH. reflexivity.
Qed.

(* values on which ToObjectAlt inverts ToInterface: no Char anywhere *)
Fixpoint char_free (v : pvalue) : bool :=
  match v with
  | PChar _ => false
  | PArr l => forallb char_free l
  | PMap m => forallb (fun kv => char_free (snd kv)) m
  | _ => true
  end.

Lemma roundtrip_gen alt v :
  plain v = true -> (alt = true -> char_free v = true) ->
  to_object_gen alt (to_interface v) = Ok v.
Proof.
  induction v as [ | b | z | z | f | z | s | s | l IH | m IH | m IH | i n m | i e n m | i | t p ]
    using pvalue_ind'; intros Hp Hc; try reflexivity; try discriminate Hp.
  - (* Char *) simpl. destruct alt; [|reflexivity]. specialize (Hc eq_refl). discriminate.
  - (* Arr *)
    cbn [to_interface]. rewrite to_object_gen_slice'.
    assert (H: mapM (to_object_gen alt) (map to_interface l) = Ok l).
    { simpl in Hp. assert (Hc': alt = true -> forallb char_free l = true) by exact Hc.
      clear Hc. induction l as [|x xs IHl]; [reflexivity|].
      simpl in Hp. apply andb_true_iff in Hp as [Hx Hxs].
      inversion IH as [|? ? IHx IHxs]; subst.
      simpl. rewrite IHx; [| exact Hx | intros Ha; specialize (Hc' Ha); simpl in Hc';
        apply andb_true_iff in Hc' as [? ?]; assumption ].
      simpl. rewrite IHl; [reflexivity | exact IHxs | exact Hxs |
        intros Ha; specialize (Hc' Ha); simpl in Hc'; apply andb_true_iff in Hc' as [? ?]; assumption ]. }
    rewrite H. reflexivity.
  - (* Map *)
    cbn [to_interface]. rewrite to_object_gen_map.
    assert (H: mapM_kv (to_object_gen alt) (map (fun kv => (fst kv, to_interface (snd kv))) m) = Ok m).
    { simpl in Hp. assert (Hc': alt = true -> forallb (fun kv => char_free (snd kv)) m = true) by exact Hc.
      clear Hc. unfold mapM_kv. induction m as [|[k x] xs IHl]; [reflexivity|].
      simpl in Hp. apply andb_true_iff in Hp as [Hx Hxs].
      inversion IH as [|? ? IHx IHxs]; subst. simpl in IHx.
      simpl. rewrite IHx; [| exact Hx | intros Ha; specialize (Hc' Ha); simpl in Hc';
        apply andb_true_iff in Hc' as [? ?]; assumption ].
      simpl. rewrite IHl; [reflexivity | exact IHxs | exact Hxs |
        intros Ha; specialize (Hc' Ha); simpl in Hc'; apply andb_true_iff in Hc' as [? ?]; assumption ]. }
    rewrite H. reflexivity.
Qed.

Theorem to_object_to_interface v : plain v = true -> to_object (to_interface v) = Ok v.
Proof. intros Hp. apply roundtrip_gen; [exact Hp | discriminate]. Qed.

Theorem alt_roundtrip v :
  plain v = true -> char_free v = true -> to_object_alt (to_interface v) = Ok v.
Proof. intros Hp Hc. apply roundtrip_gen; [exact Hp | intros _; exact Hc]. Qed.

Theorem alt_char_is_int z : to_object_alt (to_interface (PChar z)) = Ok (PInt z).
Proof. reflexivity. Qed.

(* ---------- Go -> uGO -> Go ---------- *)

Section GInd.
  Variable P : goval -> Prop.
  Hypothesis Hslice : forall b l, Forall P l -> P (GSliceAny b l).
  Hypothesis Hmap : forall b l, Forall (fun kv => P (snd kv)) l -> P (GMapAny b l).
  Hypothesis Hother : forall g, (forall b l, g <> GSliceAny b l) -> (forall b l, g <> GMapAny b l) -> P g.

  Fixpoint goval_ind' (g : goval) : P g.
  Proof.
    refine (match g with
            | GSliceAny b l =>
                Hslice b l ((fix go (l : list goval) : Forall P l :=
                               match l with
                               | [] => Forall_nil _
                               | x :: xs => Forall_cons _ (goval_ind' x) (go xs)
                               end) l)
            | GMapAny b l =>
                Hmap b l ((fix go (l : list (bstr * goval)) : Forall (fun kv => P (snd kv)) l :=
                             match l with
                             | [] => Forall_nil _
                             | kv :: xs => Forall_cons _ (goval_ind' (snd kv)) (go xs)
                             end) l)
            | _ => _
            end); apply Hother; intros; discriminate.
  Defined.
End GInd.

Lemma geq_slice b1 b2 l1 l2 :
  geq (GSliceAny b1 l1) (GSliceAny b2 l2) <-> Forall2 geq l1 l2.
Proof.
  simpl. revert l2. induction l1 as [|x xs IH]; intros [|y ys]; split; intros H.
  - constructor.
  - exact I.
  - contradiction.
  - inversion H.
  - contradiction.
  - inversion H.
  - destruct H as [Ha Hb]. constructor; [exact Ha | apply IH; exact Hb].
  - inversion H; subst. split; [assumption | apply IH; assumption].
Qed.

Definition geq_kv (a b : bstr * goval) : Prop := fst a = fst b /\ geq (snd a) (snd b).

Lemma geq_map b1 b2 l1 l2 :
  geq (GMapAny b1 l1) (GMapAny b2 l2) <-> Forall2 geq_kv l1 l2.
Proof.
  simpl. revert l2. induction l1 as [|[k1 x] xs IH]; intros [|[k2 y] ys]; split; intros H.
  - constructor.
  - exact I.
  - contradiction.
  - inversion H.
  - contradiction.
  - inversion H.
  - destruct H as [Ha [Hb Hc]]. constructor; [split; assumption | apply IH; exact Hc].
  - inversion H as [|? ? ? ? Hk Hr]; subst. destruct Hk as [Hk1 Hk2]. simpl in *.
    split; [assumption|]. split; [assumption | apply IH; assumption].
Qed.

Theorem to_interface_to_object g :
  canonical g = true ->
  exists v, to_object g = Ok v /\ plain v = true /\ geq (to_interface v) g.
Proof.
  induction g as [b l IH | b l IH | g Hs Hm] using goval_ind'; intros Hc.
  - (* slice *)
    simpl in Hc.
    assert (H: exists r, mapM to_object l = Ok r /\ forallb plain r = true /\
                         Forall2 geq (map to_interface r) l).
    { induction l as [|x xs IHl].
      - exists []. simpl. repeat split. constructor.
      - simpl in Hc. apply andb_true_iff in Hc as [Hx Hxs].
        inversion IH as [|? ? IHx IHxs]; subst.
        destruct (IHx Hx) as [vx [E1 [E2 E3]]].
        destruct (IHl IHxs Hxs) as [r [F1 [F2 F3]]].
        exists (vx :: r). simpl. unfold to_object in *. rewrite E1. simpl. rewrite F1. simpl.
        rewrite E2, F2. repeat split. constructor; assumption. }
    destruct H as [r [H1 [H2 H3]]].
    exists (PArr r). unfold to_object in *. rewrite to_object_gen_slice', H1. simpl.
    repeat split; [exact H2|]. apply (proj2 (geq_slice false b (map to_interface r) l)). exact H3.
  - (* map *)
    simpl in Hc.
    assert (H: exists r, mapM_kv to_object l = Ok r /\ forallb (fun kv => plain (snd kv)) r = true /\
                         Forall2 geq_kv (map (fun kv => (fst kv, to_interface (snd kv))) r) l).
    { unfold mapM_kv. induction l as [|[k x] xs IHl].
      - exists []. simpl. repeat split. constructor.
      - simpl in Hc. apply andb_true_iff in Hc as [Hx Hxs].
        inversion IH as [|? ? IHx IHxs]; subst. simpl in IHx.
        destruct (IHx Hx) as [vx [E1 [E2 E3]]].
        destruct (IHl IHxs Hxs) as [r [F1 [F2 F3]]].
        exists ((k, vx) :: r). simpl. unfold to_object in *. rewrite E1. simpl. rewrite F1. simpl.
        rewrite E2, F2. repeat split. constructor; [split; [reflexivity | exact E3] | assumption]. }
    destruct H as [r [H1 [H2 H3]]].
    exists (PMap r). unfold to_object in *. rewrite to_object_gen_map, H1. simpl.
    repeat split; [exact H2|]. apply (proj2 (geq_map false b (map (fun kv => (fst kv, to_interface (snd kv))) r) l)). exact H3.
  - destruct g; try discriminate Hc;
      try (eexists; repeat split; reflexivity);
      try (exfalso; eapply Hs; reflexivity); try (exfalso; eapply Hm; reflexivity).
Qed.

(* ---------- widths ---------- *)

Theorem widths_alt g z v :
  go_int_val g = Some z -> to_object_alt g = Ok v -> p_int_val v = Some z.
Proof.
  destruct g; simpl; intros H1 H2; try discriminate H1; inversion H1; subst;
    inversion H2; subst; reflexivity.
Qed.

Theorem widths_std g z v :
  go_int_val g = Some z -> to_object g = Ok v -> p_int_val v = Some z.
Proof.
  destruct g; simpl; intros H1 H2; try discriminate H1; inversion H1; subst;
    try (inversion H2; subst; reflexivity); try discriminate H2.
Qed.

Lemma shift_pos_mul p m : Zpos (shift_pos p m) = (Zpos m * 2 ^ Zpos p)%Z.
Proof. rewrite shift_pos_correct. rewrite Z.pow_pos_fold. lia. Qed.

Theorem widen32_exact f a b :
  sf_dyadic f = Some a -> sf_dyadic (widen32 f) = Some b -> dy_eq b a.
Proof.
  destruct f as [s| s | | s m e]; cbn [sf_dyadic widen32]; intros Ha Hb; try discriminate.
  - inversion Ha; inversion Hb; subst. cbv [dy_eq]. reflexivity.
  - inversion Ha; subst; clear Ha.
    remember (53 - Z.pos (digits2_pos m))%Z as k eqn:Ek.
    destruct k as [|p|p]; cbn [sf_dyadic] in Hb; inversion Hb; subst; clear Hb.
    + cbv [dy_eq]. reflexivity.
    + cbv [dy_eq]. rewrite Z.min_l by lia.
      replace (e - Z.pos p - (e - Z.pos p))%Z with 0%Z by lia.
      replace (e - (e - Z.pos p))%Z with (Z.pos p) by lia.
      rewrite shift_pos_mul, Z.pow_0_r. destruct s; unfold cond_Zopp; lia.
    + cbv [dy_eq]. reflexivity.
Qed.

Theorem widen32_special f :
  sf_dyadic f = None -> widen32 f = f.
Proof. destruct f; simpl; intros H; try reflexivity; discriminate. Qed.

(* ---------- errors, no panic ---------- *)

Theorem convert_no_panic alt g : is_panic (to_object_gen alt g) = false.
Proof.
  induction g as [b l IH | b l IH | g Hs Hm] using goval_ind'.
  - rewrite to_object_gen_slice'.
    assert (H: is_panic (mapM (to_object_gen alt) l) = false).
    { induction l as [|x xs IHl]; [reflexivity|]. inversion IH as [|? ? IHx IHxs]; subst.
      simpl. destruct (to_object_gen alt x); simpl in *; try reflexivity; try discriminate.
      specialize (IHl IHxs). destruct (mapM (to_object_gen alt) xs); simpl in *; try reflexivity; discriminate. }
    destruct (mapM (to_object_gen alt) l); simpl in *; try reflexivity; discriminate.
  - rewrite to_object_gen_map.
    assert (H: is_panic (mapM_kv (to_object_gen alt) l) = false).
    { unfold mapM_kv. induction l as [|[k x] xs IHl]; [reflexivity|]. inversion IH as [|? ? IHx IHxs]; subst.
      simpl in *. destruct (to_object_gen alt x); simpl in *; try reflexivity; try discriminate.
      specialize (IHl IHxs).
      destruct (mapM _ xs); simpl in *; try reflexivity; discriminate. }
    destruct (mapM_kv (to_object_gen alt) l); simpl in *; try reflexivity; discriminate.
  - destruct g; simpl; try reflexivity;
      try (exfalso; eapply Hs; reflexivity); try (exfalso; eapply Hm; reflexivity);
      try (destruct alt; reflexivity);
      try (destruct isnil; reflexivity).
    + unfold default_case. destruct (registry_to_object tag payload); reflexivity.
Qed.

(* Go types outside the supported set are reported as errors. *)
Theorem unsupported_is_error tag : exists e, to_object (GOther tag) = Err e /\ to_object_alt (GOther tag) = Err e.
Proof. eexists; split; reflexivity. Qed.

Theorem narrow_ints_unsupported_by_to_object z :
  (exists e, to_object (GInt8 z) = Err e) /\ (exists e, to_object (GInt16 z) = Err e) /\
  (exists e, to_object (GUint16 z) = Err e) /\ (exists e, to_object (GUint32 z) = Err e).
Proof. repeat split; eexists; reflexivity. Qed.
