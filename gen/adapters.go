// Translator for the generated argument adapters (zfuncs.go files), the time method table and the
// tables of exported callables (C19).  Output: Gen/Adapters.v.
package main

import (
	"fmt"
	"go/ast"
	"go/token"
	"path/filepath"
	"sort"
	"strconv"
	"strings"
)

type adParam struct {
	conv      string // converter function, "Object" for a plain argument
	idx       int    // argument index converted
	pos, want string // NewArgumentTypeError position and expected type ("" for Object)
	tnIdx     int    // argument whose TypeName is reported
}

type adapter struct {
	name   string
	ex     bool // takes a Call (CheckLen) rather than ...Object (len(args))
	n      int  // required number of arguments
	gets   []int
	params []adParam
}

func intLit(e ast.Expr, what string) int {
	bl, ok := e.(*ast.BasicLit)
	if !ok || bl.Kind != token.INT {
		fail("%s: not an integer literal", what)
	}
	n, err := strconv.Atoi(bl.Value)
	if err != nil {
		fail("%s: %v", what, err)
	}
	return n
}

func strLit(e ast.Expr, what string) string {
	bl, ok := e.(*ast.BasicLit)
	if !ok || bl.Kind != token.STRING {
		fail("%s: not a string literal", what)
	}
	s, err := strconv.Unquote(bl.Value)
	if err != nil {
		fail("%s: %v", what, err)
	}
	return s
}

// funName renders f or pkg.f
func funName(e ast.Expr) string {
	switch x := e.(type) {
	case *ast.Ident:
		return x.Name
	case *ast.SelectorExpr:
		if id, ok := x.X.(*ast.Ident); ok {
			return id.Name + "." + x.Sel.Name
		}
	}
	return ""
}

// argAccess recognises <args>.Get(K) and <args>[K]
func argAccess(e ast.Expr, argsName string, what string) (int, bool) {
	switch x := e.(type) {
	case *ast.CallExpr:
		if sel, ok := x.Fun.(*ast.SelectorExpr); ok && sel.Sel.Name == "Get" {
			if id, ok := sel.X.(*ast.Ident); ok && id.Name == argsName {
				if len(x.Args) != 1 {
					fail("%s: Get with %d arguments", what, len(x.Args))
				}
				return intLit(x.Args[0], what+": Get index"), true
			}
		}
	case *ast.IndexExpr:
		if id, ok := x.X.(*ast.Ident); ok && id.Name == argsName {
			return intLit(x.Index, what+": index"), true
		}
	}
	return 0, false
}

// callParam finds the parameter that carries the arguments: Call, ugo.Call, *ugo.Call or ...Object
func callParam(ft *ast.FuncType) (name string, ex bool, ok bool) {
	for _, p := range ft.Params.List {
		t := p.Type
		if el, isEll := t.(*ast.Ellipsis); isEll {
			if n := funName(el.Elt); n == "Object" || n == "ugo.Object" {
				if len(p.Names) == 1 {
					return p.Names[0].Name, false, true
				}
			}
			continue
		}
		if st, isStar := t.(*ast.StarExpr); isStar {
			t = st.X
		}
		if n := funName(t); n == "Call" || n == "ugo.Call" {
			if len(p.Names) == 1 {
				return p.Names[0].Name, true, true
			}
		}
	}
	return "", false, false
}

// parseAdapter translates the body of a checked adapter:
//
//	if err := args.CheckLen(N); err != nil { return ... }      (or: if len(args) != N { return ... })
//	x := args.Get(K)                                           plain parameter
//	y, ok := Conv(args.Get(K)); if !ok { return ..., NewArgumentTypeError(pos, want, args.Get(K').TypeName()) }
//	... body (no further shape required; every argument access in it is collected) ...
func parseAdapter(name string, lit *ast.FuncLit) (adapter, bool) {
	argsName, ex, ok := callParam(lit.Type)
	if !ok || len(lit.Body.List) == 0 {
		return adapter{}, false
	}
	ad := adapter{name: name, ex: ex, n: -1}
	first, isIf := lit.Body.List[0].(*ast.IfStmt)
	if !isIf {
		return adapter{}, false
	}
	if ex {
		as, ok := first.Init.(*ast.AssignStmt)
		if !ok || len(as.Rhs) != 1 {
			return adapter{}, false
		}
		call, ok := as.Rhs[0].(*ast.CallExpr)
		if !ok {
			return adapter{}, false
		}
		sel, ok := call.Fun.(*ast.SelectorExpr)
		if !ok || sel.Sel.Name != "CheckLen" {
			return adapter{}, false
		}
		if id, ok := sel.X.(*ast.Ident); !ok || id.Name != argsName {
			return adapter{}, false
		}
		ad.n = intLit(call.Args[0], name+": CheckLen")
		be, ok := first.Cond.(*ast.BinaryExpr)
		if !ok || be.Op != token.NEQ || funName(be.X) != "err" || funName(be.Y) != "nil" {
			fail("%s: CheckLen result is not tested with err != nil", name)
		}
	} else {
		be, ok := first.Cond.(*ast.BinaryExpr)
		if !ok || be.Op != token.NEQ || first.Init != nil {
			return adapter{}, false
		}
		lc, ok := be.X.(*ast.CallExpr)
		if !ok || funName(lc.Fun) != "len" || len(lc.Args) != 1 || funName(lc.Args[0]) != argsName {
			return adapter{}, false
		}
		ad.n = intLit(be.Y, name+": len(args) comparison")
		// the message must state the same number
		found := false
		ast.Inspect(first.Body, func(n ast.Node) bool {
			if bl, ok := n.(*ast.BasicLit); ok && bl.Kind == token.STRING {
				if s, _ := strconv.Unquote(bl.Value); s == fmt.Sprintf("want=%d got=", ad.n) {
					found = true
				}
			}
			return true
		})
		if !found {
			fail("%s: wrong-number-of-arguments message does not state want=%d", name, ad.n)
		}
	}
	if len(first.Body.List) != 1 {
		fail("%s: arity check body is not a single return", name)
	}
	if _, ok := first.Body.List[0].(*ast.ReturnStmt); !ok {
		fail("%s: arity check does not return", name)
	}
	// parameters
	stmts := lit.Body.List[1:]
	for i := 0; i < len(stmts); i++ {
		as, ok := stmts[i].(*ast.AssignStmt)
		if !ok || as.Tok != token.DEFINE || len(as.Rhs) != 1 {
			break
		}
		if len(as.Lhs) == 1 {
			k, ok := argAccess(as.Rhs[0], argsName, name)
			if !ok {
				break
			}
			ad.params = append(ad.params, adParam{conv: "Object", idx: k, tnIdx: k})
			continue
		}
		if len(as.Lhs) != 2 || funName(as.Lhs[1]) != "ok" {
			break
		}
		call, ok := as.Rhs[0].(*ast.CallExpr)
		if !ok || len(call.Args) != 1 {
			break
		}
		k, ok := argAccess(call.Args[0], argsName, name)
		if !ok {
			break
		}
		conv := funName(call.Fun)
		if i := strings.LastIndex(conv, "."); i >= 0 {
			conv = conv[i+1:]
		}
		if i+1 >= len(stmts) {
			fail("%s: conversion of argument %d is not followed by a check", name, k)
		}
		chk, ok := stmts[i+1].(*ast.IfStmt)
		if !ok {
			fail("%s: conversion of argument %d is not followed by if !ok", name, k)
		}
		un, ok := chk.Cond.(*ast.UnaryExpr)
		if !ok || un.Op != token.NOT || funName(un.X) != "ok" || len(chk.Body.List) != 1 {
			fail("%s: conversion check of argument %d has an unexpected shape", name, k)
		}
		ret, ok := chk.Body.List[0].(*ast.ReturnStmt)
		if !ok {
			fail("%s: conversion check of argument %d does not return", name, k)
		}
		var errCall *ast.CallExpr
		for _, r := range ret.Results {
			if c, ok := r.(*ast.CallExpr); ok {
				fn := funName(c.Fun)
				if strings.HasSuffix(fn, "NewArgumentTypeError") || fn == "newArgTypeErr" {
					errCall = c
				}
			}
		}
		if errCall == nil || len(errCall.Args) != 3 {
			fail("%s: conversion check of argument %d does not return NewArgumentTypeError", name, k)
		}
		p := adParam{conv: conv, idx: k}
		p.pos = strLit(errCall.Args[0], name+": error position")
		p.want = strLit(errCall.Args[1], name+": error expected type")
		tn, ok := errCall.Args[2].(*ast.CallExpr)
		if !ok {
			fail("%s: found type is not a TypeName() call", name)
		}
		tsel, ok := tn.Fun.(*ast.SelectorExpr)
		if !ok || tsel.Sel.Name != "TypeName" {
			fail("%s: found type is not a TypeName() call", name)
		}
		p.tnIdx, ok = argAccess(tsel.X, argsName, name)
		if !ok {
			fail("%s: TypeName() of something else than an argument", name)
		}
		ad.params = append(ad.params, p)
		i++
	}
	// every argument access anywhere in the function, literal indexes only
	ast.Inspect(lit.Body, func(n ast.Node) bool {
		e, ok := n.(ast.Expr)
		if !ok {
			return true
		}
		switch x := e.(type) {
		case *ast.CallExpr:
			if sel, ok := x.Fun.(*ast.SelectorExpr); ok && sel.Sel.Name == "Get" && funName(sel.X) == argsName {
				k, _ := argAccess(e, argsName, name)
				ad.gets = append(ad.gets, k)
			}
		case *ast.IndexExpr:
			if funName(x.X) == argsName {
				k, _ := argAccess(e, argsName, name)
				ad.gets = append(ad.gets, k)
			}
		case *ast.SliceExpr:
			if funName(x.X) == argsName {
				fail("%s: slices the argument list", name)
			}
		}
		return true
	})
	return ad, true
}

// adaptersOfFile: top-level functions `func F(fn ...) Callable[Ex]Func { return func(args ...) ... }`
func adaptersOfFile(f *ast.File, pkg string, all bool) []adapter {
	var out []adapter
	for _, d := range f.Decls {
		fd, ok := d.(*ast.FuncDecl)
		if !ok || fd.Recv != nil || fd.Body == nil || len(fd.Body.List) != 1 {
			if all && ok {
				fail("%s.%s: generated adapter with an unexpected shape", pkg, fd.Name.Name)
			}
			continue
		}
		ret, ok := fd.Body.List[0].(*ast.ReturnStmt)
		if !ok || len(ret.Results) != 1 {
			if all {
				fail("%s.%s: generated adapter does not return a function literal", pkg, fd.Name.Name)
			}
			continue
		}
		lit, ok := ret.Results[0].(*ast.FuncLit)
		if !ok {
			if all {
				fail("%s.%s: generated adapter does not return a function literal", pkg, fd.Name.Name)
			}
			continue
		}
		ad, ok := parseAdapter(pkg+"."+fd.Name.Name, lit)
		if !ok {
			if all {
				fail("%s.%s: generated adapter without an arity check", pkg, fd.Name.Name)
			}
			continue
		}
		out = append(out, ad)
	}
	return out
}

// methodTableAdapters: var methodTable = map[string]func(...){ "Name": func(o *Time, c *ugo.Call) ... }
func methodTableAdapters(f *ast.File, varName, prefix string) []adapter {
	var out []adapter
	for _, d := range f.Decls {
		gd, ok := d.(*ast.GenDecl)
		if !ok || gd.Tok != token.VAR {
			continue
		}
		for _, s := range gd.Specs {
			vs := s.(*ast.ValueSpec)
			if len(vs.Names) != 1 || vs.Names[0].Name != varName || len(vs.Values) != 1 {
				continue
			}
			cl, ok := vs.Values[0].(*ast.CompositeLit)
			if !ok {
				fail("%s is not a composite literal", varName)
			}
			for _, e := range cl.Elts {
				kv := e.(*ast.KeyValueExpr)
				key := strLit(kv.Key, varName+" key")
				lit, ok := kv.Value.(*ast.FuncLit)
				if !ok {
					fail("%s[%s] is not a function literal", varName, key)
				}
				ad, ok := parseAdapter(prefix+key, lit)
				if !ok {
					fail("%s[%s]: no arity check", varName, key)
				}
				out = append(out, ad)
			}
			return out
		}
	}
	fail("variable %s not found", varName)
	return nil
}

type callableEntry struct{ id, value, valueEx string }

// callablesOfFile finds &Function{Name: "...", Value: ..., ValueEx: ...} / &BuiltinFunction{...}
// literals and records which adapter makes each entry point ("" for a hand-written function).
func callablesOfFile(f *ast.File, prefix, pkg string, known map[string]bool) []callableEntry {
	var out []callableEntry
	resolve := func(e ast.Expr) string {
		call, ok := e.(*ast.CallExpr)
		if !ok {
			return ""
		}
		n := funName(call.Fun)
		if n == "" {
			return ""
		}
		if !strings.Contains(n, ".") {
			n = pkg + "." + n
		}
		if known[n] {
			return n
		}
		return ""
	}
	ast.Inspect(f, func(n ast.Node) bool {
		cl, ok := n.(*ast.CompositeLit)
		if !ok {
			return true
		}
		tn := funName(cl.Type)
		if tn != "Function" && tn != "ugo.Function" && tn != "BuiltinFunction" {
			return true
		}
		ent := callableEntry{value: "-", valueEx: "-"} // "-": field absent
		name := ""
		for _, e := range cl.Elts {
			kv, ok := e.(*ast.KeyValueExpr)
			if !ok {
				continue
			}
			switch funName(kv.Key) {
			case "Name":
				if bl, ok := kv.Value.(*ast.BasicLit); ok {
					name, _ = strconv.Unquote(bl.Value)
				}
			case "Value":
				ent.value = resolve(kv.Value)
			case "ValueEx":
				ent.valueEx = resolve(kv.Value)
			}
		}
		if name != "" {
			ent.id = prefix + name
			out = append(out, ent)
		}
		return true
	})
	return out
}

func intConst(f *ast.File, name string) string {
	for _, d := range f.Decls {
		gd, ok := d.(*ast.GenDecl)
		if !ok || gd.Tok != token.CONST {
			continue
		}
		for _, s := range gd.Specs {
			vs := s.(*ast.ValueSpec)
			for i, n := range vs.Names {
				if n.Name == name && i < len(vs.Values) {
					return constExpr(vs.Values[i], name)
				}
			}
		}
	}
	fail("constant %s not found", name)
	return ""
}

// constExpr renders integer constant expressions over literals, <<, +, - and * as a Coq Z term
func constExpr(e ast.Expr, what string) string {
	switch x := e.(type) {
	case *ast.BasicLit:
		if x.Kind == token.INT {
			if _, err := strconv.ParseInt(x.Value, 0, 64); err == nil {
				v, _ := strconv.ParseInt(x.Value, 0, 64)
				return strconv.FormatInt(v, 10)
			}
		}
	case *ast.ParenExpr:
		return "(" + constExpr(x.X, what) + ")"
	case *ast.BinaryExpr:
		l, r := constExpr(x.X, what), constExpr(x.Y, what)
		switch x.Op {
		case token.SHL:
			return "(Z.shiftl " + l + " " + r + ")"
		case token.ADD:
			return "(" + l + " + " + r + ")"
		case token.SUB:
			return "(" + l + " - " + r + ")"
		case token.MUL:
			return "(" + l + " * " + r + ")"
		}
	case *ast.SelectorExpr:
		switch funName(x) {
		case "math.MaxInt32":
			return "2147483647"
		case "math.MaxInt64", "math.MaxInt":
			return "9223372036854775807"
		}
	}
	fail("%s: constant expression outside the accepted forms", what)
	return ""
}

func coqStr(s string) string { return "\"" + strings.ReplaceAll(s, "\"", "\"\"") + "\"" }

func genAdapters(repo, out string) {
	var ads []adapter
	ads = append(ads, adaptersOfFile(parseFile(filepath.Join(repo, "zfuncs.go")), "ugo", true)...)
	ads = append(ads, adaptersOfFile(parseFile(filepath.Join(repo, "stdlib/zfuncs.go")), "stdlib", true)...)
	ads = append(ads, adaptersOfFile(parseFile(filepath.Join(repo, "stdlib/time/zfuncs.go")), "time", true)...)
	ads = append(ads, methodTableAdapters(parseFile(filepath.Join(repo, "stdlib/time/time.go")), "methodTable", "time.method.")...)
	known := map[string]bool{}
	for _, a := range ads {
		if known[a.name] {
			fail("duplicate adapter %s", a.name)
		}
		known[a.name] = true
	}
	var cs []callableEntry
	cs = append(cs, callablesOfFile(parseFile(filepath.Join(repo, "builtins.go")), "builtin.", "ugo", known)...)
	for _, m := range []string{"fmt", "json", "strings", "time"} {
		cs = append(cs, callablesOfFile(parseFile(filepath.Join(repo, "stdlib", m, "module.go")), m+".", m, known)...)
	}
	for _, a := range ads {
		if strings.HasPrefix(a.name, "time.method.") {
			cs = append(cs, callableEntry{a.name, a.name, a.name})
		}
	}
	sort.Slice(cs, func(i, j int) bool { return cs[i].id < cs[j].id })
	for i := 1; i < len(cs); i++ {
		if cs[i].id == cs[i-1].id {
			fail("duplicate callable %s", cs[i].id)
		}
	}
	maxAlloc := intConst(parseFile(filepath.Join(repo, "builtins.go")), "maxAllocLen")
	maxString := intConst(parseFile(filepath.Join(repo, "stdlib/strings/module.go")), "maxStringLen")

	var b strings.Builder
	b.WriteString("(* GENERATED by /verif/gen from zfuncs.go, stdlib/zfuncs.go, stdlib/time/zfuncs.go, stdlib/time/time.go\n   (methodTable), builtins.go and the stdlib module tables. Do not edit. *)\n")
	b.WriteString("From Coq Require Import List ZArith String.\nImport ListNotations.\nLocal Open Scope Z_scope.\nLocal Open Scope string_scope.\n\n")
	b.WriteString("(* (name, ((takes a Call, required count), (every argument index read, parameters))) ;\n   a parameter is ((converter, index), ((position, expected type), index whose type name is reported)) *)\n")
	b.WriteString("Definition adapters : list (string * ((bool * Z) * (list Z * list ((string * Z) * ((string * string) * Z))))) :=\n  [")
	for i, a := range ads {
		if i > 0 {
			b.WriteString(";\n   ")
		}
		ps := make([]string, len(a.params))
		for j, p := range a.params {
			ps[j] = fmt.Sprintf("((%s, %d), ((%s, %s), %d))", coqStr(p.conv), p.idx, coqStr(p.pos), coqStr(p.want), p.tnIdx)
		}
		fmt.Fprintf(&b, "(%s, ((%v, %d), (%s, [%s])))", coqStr(a.name), a.ex, a.n, zlist(a.gets), strings.Join(ps, "; "))
	}
	b.WriteString("].\n\n")
	b.WriteString("(* exported callables: (id, (adapter of Value, adapter of ValueEx)), the empty string for a hand-written entry point *)\n")
	b.WriteString("Definition callables : list (string * (string * string)) :=\n  [")
	for i, c := range cs {
		if i > 0 {
			b.WriteString(";\n   ")
		}
		fmt.Fprintf(&b, "(%s, (%s, %s))", coqStr(c.id), coqStr(c.value), coqStr(c.valueEx))
	}
	b.WriteString("].\n\n")
	fmt.Fprintf(&b, "Definition max_alloc_len : Z := %s.\nDefinition max_string_len : Z := %s.\n", maxAlloc, maxString)
	writeIfChanged(filepath.Join(out, "Adapters.v"), b.String())
}

const adaptersStub = `(* STUB: the translator rejected the current source; see Gen/status.json. *)
From Coq Require Import List ZArith String.
Import ListNotations.
Local Open Scope Z_scope.
Definition adapters : list (string * ((bool * Z) * (list Z * list ((string * Z) * ((string * string) * Z))))) := [].
Definition callables : list (string * (string * string)) := [].
Definition max_alloc_len : Z := 0.
Definition max_string_len : Z := 0.
`
