// gen: translators Go source -> Gallina for code that is a table.
// Run at the start of every check; output under coq/theories/Gen (never committed).
// Fails closed: anything outside the accepted shapes is an error.
package main

import (
	"encoding/json"
	"flag"
	"fmt"
	"go/ast"
	"go/parser"
	"go/token"
	"os"
	"path/filepath"
	"sort"
	"strconv"
	"strings"
)

type genError string

// fail aborts the translation of the current table (fails closed).
func fail(format string, args ...any) {
	panic(genError(fmt.Sprintf(format, args...)))
}

func parseFile(path string) *ast.File {
	fset := token.NewFileSet()
	f, err := parser.ParseFile(fset, path, nil, 0)
	if err != nil {
		fail("%v", err)
	}
	return f
}

// iotaConsts returns the names of the first const block whose first spec has the given type name
// and uses iota, in order.
func iotaConsts(f *ast.File, typeName string) []string {
	for _, d := range f.Decls {
		gd, ok := d.(*ast.GenDecl)
		if !ok || gd.Tok != token.CONST || len(gd.Specs) == 0 {
			continue
		}
		first := gd.Specs[0].(*ast.ValueSpec)
		id, ok := first.Type.(*ast.Ident)
		if !ok || id.Name != typeName || len(first.Values) != 1 {
			continue
		}
		if v, ok := first.Values[0].(*ast.Ident); !ok || v.Name != "iota" {
			continue
		}
		var names []string
		for i, s := range gd.Specs {
			vs := s.(*ast.ValueSpec)
			if len(vs.Names) != 1 || (i > 0 && (vs.Type != nil || len(vs.Values) != 0)) {
				fail("const block of %s: unexpected spec shape", typeName)
			}
			names = append(names, vs.Names[0].Name)
		}
		return names
	}
	fail("no iota const block of type %s", typeName)
	return nil
}

// keyedIntLists reads `var <name> = [...][]int{ Key: {a, b}, ... }`.
func keyedIntLists(f *ast.File, varName string) map[string][]int {
	for _, d := range f.Decls {
		gd, ok := d.(*ast.GenDecl)
		if !ok || gd.Tok != token.VAR {
			continue
		}
		for _, s := range gd.Specs {
			vs := s.(*ast.ValueSpec)
			if len(vs.Names) != 1 || vs.Names[0].Name != varName || len(vs.Values) != 1 {
				continue
			}
			cl, ok := vs.Values[0].(*ast.CompositeLit)
			if !ok {
				fail("%s is not a composite literal", varName)
			}
			out := map[string][]int{}
			for _, e := range cl.Elts {
				kv, ok := e.(*ast.KeyValueExpr)
				if !ok {
					fail("%s: element without key", varName)
				}
				key, ok := kv.Key.(*ast.Ident)
				if !ok {
					fail("%s: key is not an identifier", varName)
				}
				inner, ok := kv.Value.(*ast.CompositeLit)
				if !ok {
					fail("%s: value is not a literal", varName)
				}
				vals := []int{}
				for _, x := range inner.Elts {
					bl, ok := x.(*ast.BasicLit)
					if !ok || bl.Kind != token.INT {
						fail("%s: non integer element", varName)
					}
					n, _ := strconv.Atoi(bl.Value)
					vals = append(vals, n)
				}
				if _, dup := out[key.Name]; dup {
					fail("%s: duplicate key %s", varName, key.Name)
				}
				out[key.Name] = vals
			}
			return out
		}
	}
	fail("variable %s not found", varName)
	return nil
}

type layoutItem struct{ arg, shift int }

// makeInstructionLayouts reads the switch in MakeInstruction: for each opcode the bytes appended
// to buf, as (argument index, right shift).
func makeInstructionLayouts(f *ast.File) map[string][]layoutItem {
	var fn *ast.FuncDecl
	for _, d := range f.Decls {
		if fd, ok := d.(*ast.FuncDecl); ok && fd.Name.Name == "MakeInstruction" && fd.Recv == nil {
			fn = fd
		}
	}
	if fn == nil {
		fail("MakeInstruction not found")
	}
	var sw *ast.SwitchStmt
	for _, st := range fn.Body.List {
		if s, ok := st.(*ast.SwitchStmt); ok {
			if id, ok := s.Tag.(*ast.Ident); ok && id.Name == "op" {
				sw = s
			}
		}
	}
	if sw == nil {
		fail("MakeInstruction: switch op not found")
	}
	out := map[string][]layoutItem{}
	for _, c := range sw.Body.List {
		cc := c.(*ast.CaseClause)
		if cc.List == nil {
			continue // default: unknown opcode error
		}
		var ret *ast.ReturnStmt
		for _, st := range cc.Body {
			if r, ok := st.(*ast.ReturnStmt); ok {
				ret = r
			}
		}
		if ret == nil || len(ret.Results) != 2 {
			fail("MakeInstruction: case without a two-value return")
		}
		items := []layoutItem{}
		switch r := ret.Results[0].(type) {
		case *ast.Ident:
			if r.Name != "buf" {
				fail("MakeInstruction: unexpected return %s", r.Name)
			}
		case *ast.CallExpr:
			if id, ok := r.Fun.(*ast.Ident); !ok || id.Name != "append" || len(r.Args) < 1 {
				fail("MakeInstruction: return is not append(buf, ...)")
			}
			for _, a := range r.Args[1:] {
				conv, ok := a.(*ast.CallExpr)
				if !ok || len(conv.Args) != 1 {
					fail("MakeInstruction: appended value is not byte(...)")
				}
				if id, ok := conv.Fun.(*ast.Ident); !ok || id.Name != "byte" {
					fail("MakeInstruction: appended value is not byte(...)")
				}
				arg, shift := -1, 0
				switch e := conv.Args[0].(type) {
				case *ast.IndexExpr:
					arg = argIndex(e)
				case *ast.BinaryExpr:
					if e.Op != token.SHR {
						fail("MakeInstruction: unexpected operator")
					}
					ie, ok := e.X.(*ast.IndexExpr)
					if !ok {
						fail("MakeInstruction: shift of a non argument")
					}
					arg = argIndex(ie)
					bl, ok := e.Y.(*ast.BasicLit)
					if !ok {
						fail("MakeInstruction: non literal shift")
					}
					shift, _ = strconv.Atoi(bl.Value)
				default:
					fail("MakeInstruction: unexpected byte() argument")
				}
				items = append(items, layoutItem{arg, shift})
			}
		default:
			fail("MakeInstruction: unexpected return expression")
		}
		for _, e := range cc.List {
			id, ok := e.(*ast.Ident)
			if !ok {
				fail("MakeInstruction: case label is not an identifier")
			}
			if _, dup := out[id.Name]; dup {
				fail("MakeInstruction: duplicate case %s", id.Name)
			}
			out[id.Name] = items
		}
	}
	return out
}

func argIndex(e *ast.IndexExpr) int {
	id, ok := e.X.(*ast.Ident)
	if !ok || id.Name != "args" {
		fail("MakeInstruction: index of something else than args")
	}
	bl, ok := e.Index.(*ast.BasicLit)
	if !ok {
		fail("MakeInstruction: non literal index")
	}
	n, _ := strconv.Atoi(bl.Value)
	return n
}

func zlist(v []int) string {
	parts := make([]string, len(v))
	for i, x := range v {
		parts[i] = strconv.Itoa(x)
	}
	return "[" + strings.Join(parts, "; ") + "]"
}

func writeIfChanged(path, content string) {
	old, err := os.ReadFile(path)
	if err == nil && string(old) == content {
		return
	}
	if err := os.MkdirAll(filepath.Dir(path), 0o755); err != nil {
		fail("%v", err)
	}
	if err := os.WriteFile(path, []byte(content), 0o644); err != nil {
		fail("%v", err)
	}
}

func genOpTable(repo, out string) {
	f2 := parseFile(filepath.Join(repo, "opcodes.go"))
	f1 := parseFile(filepath.Join(repo, "encoder/opv1/opcodes_v1.go"))
	fc := parseFile(filepath.Join(repo, "compiler.go"))
	names2 := iotaConsts(f2, "Opcode")
	names1 := iotaConsts(f1, "Opcode")
	ops2 := keyedIntLists(f2, "OpcodeOperands")
	ops1 := keyedIntLists(f1, "OpcodeOperands")
	layouts := makeInstructionLayouts(fc)
	var b strings.Builder
	b.WriteString("(* GENERATED by /verif/gen from opcodes.go, encoder/opv1/opcodes_v1.go and compiler.go (MakeInstruction). Do not edit. *)\n")
	b.WriteString("From Coq Require Import List ZArith String.\nImport ListNotations.\nLocal Open Scope Z_scope.\nLocal Open Scope string_scope.\n\n")
	emitTable := func(name string, names []string, ops map[string][]int) {
		fmt.Fprintf(&b, "Definition %s : list (string * list Z) :=\n  [", name)
		for i, n := range names {
			w, ok := ops[n]
			if !ok {
				fail("%s: opcode %s has no OpcodeOperands entry", name, n)
			}
			if i > 0 {
				b.WriteString(";\n   ")
			}
			fmt.Fprintf(&b, "(\"%s\", %s)", n, zlist(w))
		}
		b.WriteString("].\n\n")
		if len(ops) != len(names) {
			fail("%s: OpcodeOperands has entries for unknown opcodes", name)
		}
	}
	emitTable("opcodes_v2", names2, ops2)
	emitTable("opcodes_v1", names1, ops1)
	// MakeInstruction layouts in opcode order
	b.WriteString("(* bytes appended by MakeInstruction after the opcode: (argument index, right shift) *)\n")
	b.WriteString("Definition make_layouts : list (string * list (nat * Z)) :=\n  [")
	keys := make([]string, 0, len(layouts))
	for k := range layouts {
		keys = append(keys, k)
	}
	sort.Strings(keys)
	for i, n := range names2 {
		l, ok := layouts[n]
		if i > 0 {
			b.WriteString(";\n   ")
		}
		if !ok {
			fmt.Fprintf(&b, "(\"%s\", [(99%%nat, 0)])", n) // falls to the default (unknown opcode) case
			continue
		}
		parts := make([]string, len(l))
		for j, it := range l {
			parts[j] = fmt.Sprintf("(%d%%nat, %d)", it.arg, it.shift)
		}
		fmt.Fprintf(&b, "(\"%s\", [%s])", n, strings.Join(parts, "; "))
	}
	b.WriteString("].\n")
	writeIfChanged(filepath.Join(out, "OpTable.v"), b.String())
}

// keyedIdentMap reads `var <name> = map[string]T{ "k": Ident, ... }`.
func keyedIdentMap(f *ast.File, varName string) map[string]string {
	for _, d := range f.Decls {
		gd, ok := d.(*ast.GenDecl)
		if !ok || gd.Tok != token.VAR {
			continue
		}
		for _, s := range gd.Specs {
			vs := s.(*ast.ValueSpec)
			if len(vs.Names) != 1 || vs.Names[0].Name != varName || len(vs.Values) != 1 {
				continue
			}
			cl, ok := vs.Values[0].(*ast.CompositeLit)
			if !ok {
				fail("%s is not a composite literal", varName)
			}
			out := map[string]string{}
			for _, e := range cl.Elts {
				kv, ok := e.(*ast.KeyValueExpr)
				if !ok {
					fail("%s: element without key", varName)
				}
				k, ok := kv.Key.(*ast.BasicLit)
				if !ok || k.Kind != token.STRING {
					fail("%s: key is not a string literal", varName)
				}
				v, ok := kv.Value.(*ast.Ident)
				if !ok {
					fail("%s: value is not an identifier", varName)
				}
				key, err := strconv.Unquote(k.Value)
				if err != nil {
					fail("%v", err)
				}
				if _, dup := out[key]; dup {
					fail("%s: duplicate key %s", varName, key)
				}
				out[key] = v.Name
			}
			return out
		}
	}
	fail("variable %s not found", varName)
	return nil
}

func genBuiltins(repo, out string) {
	f := parseFile(filepath.Join(repo, "builtins.go"))
	consts := iotaConsts(f, "BuiltinType")
	idx := map[string]int{}
	for i, c := range consts {
		idx[c] = i
	}
	m := keyedIdentMap(f, "BuiltinsMap")
	names := make([]string, 0, len(m))
	for k := range m {
		names = append(names, k)
	}
	sort.Strings(names)
	var b strings.Builder
	b.WriteString("(* GENERATED by /verif/gen from builtins.go (BuiltinType constants, BuiltinsMap). Do not edit. *)\n")
	b.WriteString("From Coq Require Import List ZArith String.\nImport ListNotations.\nLocal Open Scope Z_scope.\nLocal Open Scope string_scope.\n\n")
	b.WriteString("Definition builtins_map : list (string * Z) :=\n  [")
	for i, n := range names {
		j, ok := idx[m[n]]
		if !ok {
			fail("BuiltinsMap: %s maps to unknown constant %s", n, m[n])
		}
		if i > 0 {
			b.WriteString(";\n   ")
		}
		fmt.Fprintf(&b, "(\"%s\", %d)", n, j)
	}
	b.WriteString("].\n\n")
	fmt.Fprintf(&b, "Definition num_builtin_types : Z := %d.\n", len(consts))
	writeIfChanged(filepath.Join(out, "Builtins.v"), b.String())
}

func main() {
	repo := flag.String("repo", "/repo", "repository root")
	out := flag.String("out", "/verif/coq/theories/Gen", "output directory")
	flag.Parse()
	status := map[string]string{}
	run := func(table string, stub string, f func(repo, out string)) {
		defer func() {
			if r := recover(); r != nil {
				ge, ok := r.(genError)
				if !ok {
					panic(r)
				}
				status[table] = string(ge)
				fmt.Fprintf(os.Stderr, "gen: %s: %s\n", table, string(ge))
				if stub != "" {
					// keep the rest of the development building; the status file marks the table as rejected
					_ = os.WriteFile(filepath.Join(*out, table+".v"), []byte(stub), 0o644)
				}
			}
		}()
		f(*repo, *out)
		status[table] = "ok"
	}
	run("OpTable", "", genOpTable)
	run("Builtins", "", genBuiltins)
	run("Adapters", adaptersStub, genAdapters)
	run("VMShare", vmShareStub, genVMShare)
	js, _ := json.MarshalIndent(status, "", "  ")
	_ = os.WriteFile(filepath.Join(*out, "status.json"), append(js, '\n'), 0o644)
	for _, v := range status {
		if v != "ok" {
			os.Exit(1)
		}
	}
}
