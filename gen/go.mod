module verif/gen

go 1.23
