"""Seeded generator of terminating uGO scripts with observable logs.
Every script declares `out := []` and returns [out, <value>]; runtime errors may escape."""
import random

class Gen:
    def __init__(self, rng, max_depth=3, allow_try=True, allow_funcs=True, allow_throw=True, modules=()):
        self.r = rng
        self.max_depth = max_depth
        self.allow_try, self.allow_funcs, self.allow_throw = allow_try, allow_funcs, allow_throw
        self.modules = modules
        self.uid = 0
        self.stats = {}
        self.types = {}

    def fresh(self, p="v"):
        self.uid += 1
        return "%s%d" % (p, self.uid)

    def count(self, k):
        self.stats[k] = self.stats.get(k, 0) + 1

    # ---------------- expressions (type directed: mostly well typed, a small wild fraction)
    def lit(self):
        r = self.r
        k = r.randrange(10)
        if k < 4: return str(r.choice([0, 1, 2, 3, 5, 7, 10, 255, 1000, -1, -3]))
        if k == 4: return r.choice(['"a"', '"bc"', '""', '"x y"'])
        if k == 5: return r.choice(["true", "false"])
        if k == 6: return r.choice(["1.5", "0.25", "2.0"])
        if k == 7: return r.choice(["'a'", "'z'"])
        if k == 8: return r.choice(["undefined", "3u"])
        return str(r.randrange(-20, 20))

    def vars_of(self, vars_, ty):
        if ty == "int":
            return [v for v in vars_ if self.types.get(v, "int") in ("int", "loopvar")]
        return [v for v in vars_ if self.types.get(v, "int") == ty]

    def int_expr(self, vars_, depth=0):
        r = self.r
        iv = self.vars_of(vars_, "int")
        if depth >= 3 or r.random() < 0.35:
            if iv and r.random() < 0.65: return r.choice(iv)
            return str(r.choice([0, 1, 2, 3, 5, 7, 10, 255, -1, -3, r.randrange(-50, 50)]))
        k = r.randrange(14)
        a = lambda: self.int_expr(vars_, depth + 1)
        if k < 6:
            self.count("binop")
            return "(%s %s %s)" % (a(), r.choice(["+", "-", "*", "+", "-", "&", "|", "^"]), a())
        if k == 6:
            self.count("divrem")
            return "(%s %s %s)" % (a(), r.choice(["/", "%"]), r.choice(["2", "3", "-1", "7", "(%s | 1)" % a(), a()]))
        if k == 7:
            self.count("shift")
            return "(%s %s %s)" % (a(), r.choice(["<<", ">>"]), r.choice(["0", "1", "3", "63", "64", "(%s & 7)" % a(), a()]))
        if k == 8:
            self.count("ternary")
            return "(%s ? %s : %s)" % (self.bool_expr(vars_, depth + 1), a(), a())
        if k == 9:
            self.count("index")
            return "[%s, %s, %s][%s]" % (a(), a(), a(), r.choice(["0", "1", "2", "2", "1", "0", "2", "0", "1", "3", "-1", "(%s & 1)" % a()]))
        if k == 10:
            self.count("builtin")
            return r.choice(["len(%s)" % self.str_expr(vars_, depth + 1), 'int("%d")' % r.randrange(-99, 99),
                             "int(%s)" % a(), "len([%s, %s])" % (a(), a())])
        if k == 11:
            self.count("map")
            return "({a: %s, b: %s}).%s" % (a(), a(), r.choice(["a", "b"]))
        if k == 12:
            self.count("unary")
            return "(%s %s)" % (r.choice(["-", "^", "+"]), a())
        self.count("logical")
        return "(%s %s %s)" % (a(), r.choice(["&&", "||"]), a())

    def bool_expr(self, vars_, depth=0):
        r = self.r
        bv = self.vars_of(vars_, "bool")
        if depth >= 3 or r.random() < 0.2:
            if bv and r.random() < 0.6: return r.choice(bv)
            return r.choice(["true", "false"])
        k = r.randrange(6)
        if k < 3:
            self.count("cmp")
            return "(%s %s %s)" % (self.int_expr(vars_, depth + 1), r.choice(["<", "<=", ">", ">=", "==", "!="]), self.int_expr(vars_, depth + 1))
        if k == 3:
            self.count("logical")
            return "(%s %s %s)" % (self.bool_expr(vars_, depth + 1), r.choice(["&&", "||"]), self.bool_expr(vars_, depth + 1))
        if k == 4:
            return "(!%s)" % self.bool_expr(vars_, depth + 1)
        self.count("cmp")
        return "(%s == %s)" % (self.str_expr(vars_, depth + 1), self.str_expr(vars_, depth + 1))

    def str_expr(self, vars_, depth=0):
        r = self.r
        sv = self.vars_of(vars_, "str")
        if depth >= 3 or r.random() < 0.4:
            if sv and r.random() < 0.6: return r.choice(sv)
            return r.choice(['"a"', '"bc"', '""', '"x y"', '"12"'])
        k = r.randrange(4)
        if k == 0: return "(%s + %s)" % (self.str_expr(vars_, depth + 1), self.str_expr(vars_, depth + 1))
        if k == 1: return "string(%s)" % self.int_expr(vars_, depth + 1)
        if k == 2: return "typeName(%s)" % self.expr(vars_, depth + 1)
        return "(%s + %s)" % (self.str_expr(vars_, depth + 1), self.int_expr(vars_, depth + 1))

    def wild_expr(self, vars_, depth=0):
        r = self.r
        if depth >= 2 or r.random() < 0.3:
            nm = [v for v in vars_ if self.types.get(v) != "mod"]
            if nm and r.random() < 0.5: return r.choice(nm)
            return self.lit()
        a = lambda: self.wild_expr(vars_, depth + 1)
        k = r.randrange(5)
        self.count("wild")
        if k == 0: return "(%s %s %s)" % (a(), r.choice(["+", "-", "*", "/", "%", "<<", "<", "==", "&&", "||"]), a())
        if k == 1: return "[%s]" % ", ".join(a() for _ in range(r.randrange(0, 3)))
        if k == 2: return "%s(%s)" % (r.choice(["len", "string", "int", "bool", "typeName", "isInt", "char", "float", "uint"]), a())
        if k == 3: return "(%s ? %s : %s)" % (a(), a(), a())
        return "(%s %s)" % (r.choice(["-", "!", "^"]), a())

    def typed_expr(self, vars_, ty, depth=0):
        if ty == "int": return self.int_expr(vars_, depth)
        if ty == "bool": return self.bool_expr(vars_, depth)
        if ty == "str": return self.str_expr(vars_, depth)
        return self.wild_expr(vars_, depth)

    def pick_type(self):
        x = self.r.random()
        return "int" if x < .62 else "bool" if x < .75 else "str" if x < .92 else "any"

    def expr(self, vars_, depth=0, ints_only=False):
        return self.typed_expr(vars_, "int" if ints_only else self.pick_type(), depth)

    # ---------------- statements
    def block(self, vars_, funcs, depth, in_loop, in_func, n=None):
        r = self.r
        vars_ = list(vars_)
        funcs = list(funcs)
        out = []
        for _ in range(n if n is not None else r.randrange(1, 4)):
            out += self.stmt(vars_, funcs, depth, in_loop, in_func)
        return out

    def stmt(self, vars_, funcs, depth, in_loop, in_func):
        r = self.r
        k = r.randrange(20)
        ind = lambda lines: ["  " + l for l in lines]
        if depth >= self.max_depth: k = r.choice([0, 1, 2, 3, 4])
        if k <= 1:
            v = self.fresh(); ty = self.pick_type(); e = self.typed_expr(vars_, ty)
            self.types[v] = ty
            vars_.append(v); self.count("define")
            return ["%s := %s" % (v, e)]
        if k == 2 and vars_:
            self.count("assign")
            cand = [x for x in vars_ if self.types.get(x, "int") != "loopvar"]
            if not cand: return ["out = append(out, 0)"]
            v = r.choice(cand); ty = self.types.get(v, "int")
            if ty == "int": return ["%s %s %s" % (v, r.choice(["=", "+=", "-=", "*=", "="]), self.int_expr(vars_))]
            return ["%s = %s" % (v, self.typed_expr(vars_, ty))]
        if k <= 4:
            self.count("log")
            return ["out = append(out, %s)" % self.expr(vars_)]
        if k <= 7:
            self.count("if")
            lines = ["if %s {" % self.bool_expr(vars_)] + ind(self.block(vars_, funcs, depth + 1, in_loop, in_func))
            if r.random() < .5:
                lines += ["} else {"] + ind(self.block(vars_, funcs, depth + 1, in_loop, in_func))
            return lines + ["}"]
        if k <= 9:
            self.count("for")
            i = self.fresh("i"); self.types[i] = "loopvar"
            body = self.block(vars_ + [i], funcs, depth + 1, True, in_func)
            return ["for %s := 0; %s < %d; %s++ {" % (i, i, r.randrange(0, 4), i)] + ind(body) + ["}"]
        if k == 10:
            self.count("forin")
            kk, vv = self.fresh("k"), self.fresh("e")
            self.types[kk] = "loopvar"; self.types[vv] = "loopvar"
            body = self.block(vars_ + [kk, vv], funcs, depth + 1, True, in_func)
            return ["for %s, %s in %s {" % (kk, vv, r.choice(["[1, 2, 3]", "[5]", "[7, -1]", "[]"]))] + ind(body) + ["}"]
        if k == 11 and in_loop:
            self.count("branch")
            return ["if %s { %s }" % (self.bool_expr(vars_), r.choice(["break", "continue"]))]
        if k <= 13 and self.allow_try:
            self.count("try")
            lines = ["try {"] + ind(self.block(vars_, funcs, depth + 1, in_loop, in_func))
            form = r.randrange(3)
            if form != 1:
                ev = self.fresh("err")
                lines += ["} catch %s {" % ev, "  out = append(out, string(%s))" % ev] + ind(self.block(vars_, funcs, depth + 1, in_loop, in_func, 1))
            if form != 0:
                lines += ["} finally {"] + ind(self.block(vars_, funcs, depth + 1, in_loop, in_func, 1))
            return lines + ["}"]
        if k == 14 and self.allow_throw:
            self.count("throw")
            return ["if %s { throw %s }" % (self.bool_expr(vars_), r.choice(['"boom"', 'error("e1")', self.expr(vars_)]))]
        if k <= 16 and self.allow_funcs and depth < self.max_depth:
            self.count("func")
            f = self.fresh("f")
            nparams = r.randrange(0, 3)
            params = [self.fresh("p") for _ in range(nparams)]
            variadic = r.random() < .2
            plist = ", ".join(params) + ((", " if params else "") + "...rest" if variadic else "")
            inner_vars = vars_ + params + (["rest"] if variadic else [])
            body = self.block(inner_vars, funcs, depth + 1, False, True)
            body += ["return %s" % self.expr(inner_vars)]
            funcs.append((f, nparams, variadic))
            return ["%s := func(%s) {" % (f, plist)] + ind(body) + ["}"]
        if k == 17 and funcs:
            self.count("call")
            f, n, variadic = r.choice(funcs)
            nargs = n + (r.randrange(0, 3) if variadic else 0)
            if r.random() < .1: nargs = max(0, nargs + r.choice([-1, 1]))
            return ["out = append(out, %s(%s))" % (f, ", ".join(self.expr(vars_) for _ in range(nargs)))]
        if k == 18 and in_func:
            self.count("return")
            return ["if %s { return %s }" % (self.bool_expr(vars_), self.expr(vars_))]
        if k == 19 and self.modules:
            self.count("import")
            m = r.choice(self.modules)
            v = self.fresh("m"); vars_.append(v); self.types[v] = "mod"
            return ["%s := import(\"%s\")" % (v, m)]
        self.count("log")
        return ["out = append(out, %s)" % self.expr(vars_)]

    def program(self, nstmts=None):
        self.uid = 0
        self.types = {}
        lines = ["out := []"]
        vars_, funcs = [], []
        for _ in range(nstmts or self.r.randrange(2, 7)):
            lines += self.stmt(vars_, funcs, 0, False, False)
        rv = [v for v in vars_ if self.types.get(v) != "mod"]
        lines.append("return [out, %s]" % (self.r.choice(rv) if rv else "0"))
        return "\n".join(lines) + "\n"

    def program_stmts(self, nstmts=None):
        """top-level statements as separate chunks (for cutting into Eval fragments) and the declared names"""
        self.uid = 0
        self.types = {}
        chunks = [["out := []"]]
        vars_, funcs = [], []
        for _ in range(nstmts or self.r.randrange(3, 9)):
            chunks.append(self.stmt(vars_, funcs, 0, False, False))
        return ["\n".join(c) for c in chunks], list(vars_), [f[0] for f in funcs]
