"""Shared machinery for /verif/bin/check: build, run cases, evidence, findings."""
import fcntl, hashlib, json, os, re, subprocess, sys, time, random

VERIF = "/verif"
REPO = "/repo"
COQ = VERIF + "/coq"
OCAML = VERIF + "/ocaml"
HARNESS = VERIF + "/harness"
BUILD = VERIF + "/.build"
GOENV = dict(os.environ, GOFLAGS="-mod=mod", GOPROXY="off", GOSUMDB="off", GOTOOLCHAIN="local",
             CGO_ENABLED=os.environ.get("CGO_ENABLED", "1"))

def log(*a):
    print(*a, file=sys.stderr, flush=True)

def sh(cmd, cwd=None, env=None, timeout=1800, input=None):
    r = subprocess.run(cmd, cwd=cwd, env=env, shell=isinstance(cmd, str), capture_output=True,
                       text=True, timeout=timeout, input=input)
    return r.returncode, r.stdout, r.stderr

class Lock:
    def __enter__(self):
        os.makedirs(BUILD, exist_ok=True)
        self.f = open(BUILD + "/lock", "w")
        fcntl.flock(self.f, fcntl.LOCK_EX)
        return self
    def __exit__(self, *a):
        fcntl.flock(self.f, fcntl.LOCK_UN)
        self.f.close()

def write_if_changed(path, content):
    try:
        if open(path).read() == content:
            return False
    except FileNotFoundError:
        pass
    os.makedirs(os.path.dirname(path), exist_ok=True)
    with open(path, "w") as f:
        f.write(content)
    return True

# ---------------------------------------------------------------- build

class BuildResult:
    def __init__(self):
        self.coq_ok = True          # whole make succeeded
        self.coq_log = ""
        self.failed_files = []      # .v files whose compilation failed
        self.model_ok = True        # ugom built
        self.model_log = ""
        self.harness_ok = True
        self.harness_log = ""
        self.gen_log = ""
        self.gen_ok = True

def run_generators():
    """Translators Go source -> Gallina (tables).  Each writes coq/theories/Gen/*.v."""
    ok, logtxt = True, ""
    gendir = VERIF + "/gen"
    if os.path.exists(gendir + "/main.go"):
        rc, out, err = sh(["go", "run", ".", "-repo", REPO, "-out", COQ + "/theories/Gen"], cwd=gendir, env=GOENV, timeout=600)
        logtxt = out + err
        ok = rc == 0
    return ok, logtxt

def gen_status():
    """per-table outcome of the last translator run: {table: "ok" | reason}"""
    try: return json.load(open(COQ + "/theories/Gen/status.json"))
    except Exception: return {}

def build_all(need_race=False):
    """Rebuild everything that depends on /repo's working tree or on /verif sources.
    Incremental; safe to call from concurrently running checks (flock)."""
    br = BuildResult()
    with Lock():
        t0 = time.time()
        try: os.remove(COQ + "/theories/Gen/status.json")
        except FileNotFoundError: pass
        br.gen_ok, br.gen_log = run_generators()
        br.gen_status = gen_status()
        # Coq
        if not os.path.exists(COQ + "/Makefile") or os.path.getmtime(COQ + "/Makefile") < os.path.getmtime(COQ + "/_CoqProject"):
            sh("coq_makefile -f _CoqProject -o Makefile", cwd=COQ)
        rc, out, err = sh("timeout 3000 make -k -j16 2>&1", cwd=COQ, timeout=3100)
        br.coq_log = out + err
        br.coq_ok = rc == 0
        br.failed_files = sorted(set(re.findall(r'File "\./(theories/[^"]+\.v)"', br.coq_log))) if rc != 0 else []
        # model executable: depends only on model .vo files + ocaml sources
        stamp = BUILD + "/ugom.stamp"
        deps = []
        for root, _, files in os.walk(COQ + "/theories"):
            for f in files:
                if f.endswith(".v"):
                    deps.append(os.path.join(root, f))
        for f in os.listdir(OCAML):
            if (f.endswith(".ml") and f != "ugomodel.ml") or f in ("Extract.v", "build.sh"):
                deps.append(os.path.join(OCAML, f))
        h = hashlib.sha256()
        for d in sorted(deps):
            h.update(d.encode()); h.update(open(d, "rb").read())
        digest = h.hexdigest()
        old = open(stamp).read() if os.path.exists(stamp) else ""
        if old != digest or not os.path.exists(OCAML + "/ugom"):
            rc, out, err = sh("timeout 1200 ./build.sh 2>&1", cwd=OCAML, timeout=1300)
            br.model_log = out + err
            br.model_ok = rc == 0 and os.path.exists(OCAML + "/ugom")
            if br.model_ok:
                open(stamp, "w").write(digest)
            else:
                try: os.remove(stamp)
                except FileNotFoundError: pass
        # harness (always; go's build cache makes it cheap)
        write_if_changed(HARNESS + "/go.sum", open(REPO + "/go.sum").read())
        rc, out, err = sh(["go", "build", "-tags", "verif", "-o", "ugoh", "."], cwd=HARNESS, env=GOENV, timeout=900)
        br.harness_log = out + err
        br.harness_ok = rc == 0
        if need_race:
            rc, out, err = sh(["go", "build", "-race", "-tags", "verif", "-o", "ugoh-race", "."], cwd=HARNESS, env=GOENV, timeout=900)
            br.harness_log += out + err
            br.harness_ok = br.harness_ok and rc == 0
        br.wall = time.time() - t0
    return br

def theorem_names(prop):
    path = "%s/theories/Properties/%s.v" % (COQ, prop)
    src = open(path).read()
    return re.findall(r'^(?:Theorem|Lemma|Example)\s+([A-Za-z0-9_\']+)', src, re.M)

def check_proofs(prop, extra_files=()):
    """Re-check Properties/<prop>.v with coqc (its dependencies were built by make) and
    collect Print Assumptions output.  Returns dict."""
    rel = "theories/Properties/%s.v" % prop
    names = theorem_names(prop)
    rc, out, err = sh(["coqc", "-Q", "theories", "Ugo", "-w", "-all", rel], cwd=COQ, timeout=1800)
    txt = out + err
    ok = rc == 0
    assumptions = []
    blocks = re.split(r'\n(?=Closed under the global context|Axioms:)', "\n" + out)
    for b in blocks:
        b = b.strip()
        if b.startswith("Closed under"):
            assumptions.append("Closed under the global context")
        elif b.startswith("Axioms:"):
            assumptions.append(" ".join(b.split()))
    n_thm = len([n for n in names])
    return {"ok": ok, "obligations": n_thm, "discharged": n_thm if ok else 0, "names": names,
            "assumptions": assumptions, "log": txt,
            "checker_cmd": "cd /verif/coq && make -k -j16 && coqc -Q theories Ugo " + rel}

# ---------------------------------------------------------------- cases

def run_exe(exe, lines, timeout=1200, env=None):
    data = "\n".join(lines) + "\n"
    try:
        r = subprocess.run([exe], input=data, capture_output=True, text=True, timeout=timeout, env=env)
    except subprocess.TimeoutExpired:
        return {}, "timeout"
    res = {}
    for ln in r.stdout.split("\n"):
        if not ln: continue
        i = ln.find(" ")
        if i < 0: continue
        res[ln[:i]] = ln[i+1:]
    return res, r.stderr

def run_impl(lines, race=False, timeout=1200, env=None):
    return run_exe(HARNESS + ("/ugoh-race" if race else "/ugoh"), lines, timeout, env)

def run_model(lines, timeout=1200):
    return run_exe(OCAML + "/ugom", lines, timeout)

def hexs(b):
    if isinstance(b, str): b = b.encode()
    return "x" + b.hex()

def unhex(a):
    return bytes.fromhex(a[1:])

# tiny s-expression reader for python-side oracles
def parse_sexp(s):
    pos = 0
    def item():
        nonlocal pos
        while pos < len(s) and s[pos] in " \t\n\r": pos += 1
        if s[pos] == "(":
            pos += 1; out = []
            while True:
                while pos < len(s) and s[pos] in " \t\n\r": pos += 1
                if s[pos] == ")":
                    pos += 1; return out
                out.append(item())
        st = pos
        while pos < len(s) and s[pos] not in " ()\t\n\r": pos += 1
        return s[st:pos]
    return item()

def sexp_str(x):
    if isinstance(x, str): return x
    return "(" + " ".join(sexp_str(i) for i in x) + ")"

# ---------------------------------------------------------------- evidence / findings / replay

def load_known(prop):
    p = VERIF + "/known_findings.json"
    if not os.path.exists(p): return []
    data = json.load(open(p))
    return [f for f in data.get("findings", []) if f.get("property") == prop and f.get("status", "known") == "known"]

def write_replay(prop, payload):
    os.makedirs(VERIF + "/replays", exist_ok=True)
    h = hashlib.sha256(json.dumps(payload, sort_keys=True).encode()).hexdigest()[:12]
    path = "%s/replays/%s-%s.json" % (VERIF, prop, h)
    with open(path, "w") as f:
        json.dump(payload, f, indent=1, sort_keys=True)
    return path

def write_evidence(prop, tier, seed, coverage, wall, violations, assumptions):
    os.makedirs(VERIF + "/evidence", exist_ok=True)
    ev = {"property_id": prop, "tier": tier, "seed": seed, "level": "proof", "coverage": coverage,
          "assumptions": assumptions, "wall_s": round(wall, 2), "violations": violations}
    with open("%s/evidence/%s.json" % (VERIF, prop), "w") as f:
        json.dump(ev, f, indent=1)

class Report:
    """Collects the outcome of one check run and prints the interface lines."""
    def __init__(self, prop, tier, seed):
        self.prop, self.tier, self.seed = prop, tier, seed
        self.t0 = time.time()
        self.violations = []     # (replay payload, found_input: bool)
        self.known_seen = []
        self.coverage = {}
        self.assumptions = []
    def violation(self, payload, found=True):
        self.violations.append((payload, found))
    def known(self, fid, what):
        if (fid, what) not in self.known_seen:
            self.known_seen.append((fid, what))
    def finish(self):
        for fid, what in self.known_seen:
            print("KNOWN-FINDING: property=%s %s %s" % (self.prop, fid, what))
        seen = set()
        n = 0
        for payload, found in self.violations[:20]:
            path = write_replay(self.prop, payload)
            if path in seen: continue
            seen.add(path); n += 1
            print("VIOLATION property=%s replay=%s%s" % (self.prop, path, "" if found else " no-failing-input-found"))
        self.coverage["known_findings_seen"] = [f for f, _ in self.known_seen]
        write_evidence(self.prop, self.tier, self.seed, self.coverage, time.time() - self.t0,
                       len(self.violations), self.assumptions)
        sys.stdout.flush()
        return 1 if self.violations else 0

# ---------------------------------------------------------------- generic correspondence

def correspond(cases, race=False, timeout=1200, canon=None):
    """cases: list of dicts with 'id' and 'line'.  Runs implementation and model.
    Returns (impl, model, disagreements[list of case])."""
    lines = [c["line"] for c in cases]
    impl, ierr = run_impl(lines, race=race, timeout=timeout)
    model, merr = run_model(lines, timeout=timeout)
    dis = []
    for c in cases:
        i, m = impl.get(c["id"]), model.get(c["id"])
        c["impl"], c["model"] = i, m
        if canon is not None and i is not None and m is not None:
            i, m = canon(c, i), canon(c, m)
        if i is None or m is None or i != m:
            dis.append(c)
    return impl, model, dis

def mk_case(cid, kind, *args):
    return {"id": cid, "kind": kind, "args": list(args),
            "line": "(case %s %s %s)" % (cid, kind, " ".join(sexp_str(a) for a in args))}

def load_corpus(prop):
    d = "%s/corpus/%s" % (VERIF, prop)
    out = []
    if os.path.isdir(d):
        for f in sorted(os.listdir(d)):
            for ln in open(os.path.join(d, f)):
                ln = ln.strip()
                if ln.startswith("(case "):
                    s = parse_sexp(ln)
                    out.append({"id": s[1], "kind": s[2], "args": s[3:], "line": ln, "corpus": True})
    return out

def _limit_as(mem_kb):
    def f():
        import resource
        resource.setrlimit(resource.RLIMIT_AS, (mem_kb * 1024, mem_kb * 1024))
    return f

def run_impl_parallel(cases, procs=8, batch=50, timeout=120, mem_kb=None):
    """run_impl_robust over `procs` harness processes."""
    from concurrent.futures import ThreadPoolExecutor
    shards = [cases[i::procs] for i in range(procs)]
    results, culprits = {}, []
    with ThreadPoolExecutor(procs) as ex:
        for r, c in ex.map(lambda sh: run_impl_robust(sh, batch, timeout, mem_kb=mem_kb), shards):
            results.update(r); culprits.extend(c)
    return results, culprits

def run_impl_robust(cases, batch=300, timeout=60, env=None, mem_kb=None, max_culprits=4):
    """Runs cases in batches with per-case flushing; when the harness hangs or dies, the first
    case without a result is the culprit and the run resumes after it.
    Returns (results dict, list of (case, 'hang'|'crash'))."""
    results, culprits = {}, []
    env = dict(env or os.environ, UGOH_FLUSH="1")
    todo = list(cases)
    while todo:
        chunk, todo = todo[:batch], todo[batch:]
        data = "\n".join(c["line"] for c in chunk) + "\n"
        try:
            p = subprocess.run([HARNESS + "/ugoh"], input=data, capture_output=True, text=True, timeout=timeout, env=env,
                               preexec_fn=_limit_as(mem_kb) if mem_kb else None)
            out, how = p.stdout, "crash"
        except subprocess.TimeoutExpired as e:
            out = e.stdout.decode() if isinstance(e.stdout, bytes) else (e.stdout or "")
            how = "hang"
        got = {}
        for ln in out.split("\n"):
            i = ln.find(" ")
            if i > 0: got[ln[:i]] = ln[i+1:]
        results.update(got)
        missing = [c for c in chunk if c["id"] not in got]
        if missing:
            # the first case without a result is the suspect: it counts only when it fails again run by itself with a
            # generous limit (a batch can run out of time on a slow or busy machine without any case hanging)
            sus = missing[0]
            try:
                p1 = subprocess.run([HARNESS + "/ugoh"], input=sus["line"] + "\n", capture_output=True, text=True, timeout=max(timeout, 180), env=env,
                                    preexec_fn=_limit_as(mem_kb) if mem_kb else None)
                out1, how1 = p1.stdout, "crash"
            except subprocess.TimeoutExpired as e:
                out1 = e.stdout.decode() if isinstance(e.stdout, bytes) else (e.stdout or "")
                how1 = "hang"
            ok1 = False
            for ln in out1.split("\n"):
                i = ln.find(" ")
                if i > 0 and ln[:i] == sus["id"]:
                    results[sus["id"]] = ln[i+1:]; ok1 = True
            if not ok1: culprits.append((sus, how1))
            if len(culprits) >= max_culprits: break      # enough to report; every further one costs two time limits
            todo = missing[1:] + todo
    return results, culprits
