"""Generator of programs of the Sem fragment (C02): builds an AST (nested lists, the model's input)
and renders it as uGO source.  Type-directed, so that programs run without type errors; every
function logs through `log`, which makes evaluation order observable."""

OPS = {"add": "+", "sub": "-", "mul": "*", "lt": "<", "le": "<=", "eq": "==", "ne": "!="}

def hexs(s): return "x" + s.encode().hex()

class Gen:
    def __init__(self, rng, max_depth=3):
        self.r = rng
        self.max_depth = max_depth
        self.uid = 0
        self.stats = {}

    def count(self, k): self.stats[k] = self.stats.get(k, 0) + 1
    def fresh(self, p):
        self.uid += 1
        return "%s%d" % (p, self.uid)

    def fresh_or_shadow(self, p, sc):
        """a fresh name or, one time in four, a name declared by an enclosing scope (variable, constant,
        parameter, function, array): the new declaration shadows it from here to the end of its block"""
        if self.r.random() < .25 and len(sc) > 1:
            own = set(sc[-1])
            if "\0fnbody" in sc[-1]: own |= set(sc[-2])      # parameters live in the scope of the function body
            cands = [n for n, t in self.visible(sc[:-1], lambda t: t in ("int", "const", "undef", "loopvar") or t.startswith("arr:") or t.startswith("fn:"))
                     if n not in own]
            if cands:
                self.count("shadow-outer-name")
                return self.r.choice(cands)
        return self.fresh(p)

    # ---- scopes: list of dicts name -> type; types: int, bool, arr:<n> (fixed length int array), fn:<np>:<variadic>, const
    def visible(self, scopes, pred):
        seen, out = set(), []
        for sc in reversed(scopes):
            for n, t in sc.items():
                if n in seen: continue
                seen.add(n)
                if pred(t): out.append((n, t))
        return out

    def int_expr(self, sc, d=0):
        r = self.r
        k = r.randrange(12) if d < self.max_depth else r.randrange(3)
        ints = self.visible(sc, lambda t: t in ("int", "const"))
        if k == 0 or (k in (1, 2) and not ints): return ["i", str(r.choice([0, 1, 2, 3, 5, 7, -1, 10, 100, 2**62, -2**63 + 1]) if r.random() < .3 else r.randrange(-9, 10))]
        if k in (1, 2): return ["v", r.choice(ints)[0]]
        if k in (3, 4): return ["bin", r.choice(["add", "sub", "mul"]), self.int_expr(sc, d + 1), self.int_expr(sc, d + 1)]
        if k == 5: self.count("log-call"); return ["call", ["v", "log"], [self.int_expr(sc, d + 1)], "-"]
        if k == 6 and r.random() < .3:
            recs = self.visible(sc, lambda t: t == "fnrec1")
            if recs: return ["call", ["v", r.choice(recs)[0]], [["i", str(r.randrange(0, 6))]], "-"]
        if k == 6:
            fns = self.visible(sc, lambda t: t.startswith("fn:"))
            if fns:
                self.count("call")
                return self.call_expr(sc, r.choice(fns), d)
        if k == 7:
            arrs = self.visible(sc, lambda t: t.startswith("arr:") and int(t[4:]) > 0)
            if arrs:
                n, t = r.choice(arrs)
                self.count("index")
                idx = ["i", str(r.randrange(int(t[4:])))]
                if r.random() < .3: idx = ["call", ["v", "log"], [idx], "-"]
                return ["idx", ["v", n], idx]
        if k == 8:
            arrs = self.visible(sc, lambda t: t.startswith("arr:"))
            if arrs: return ["len", ["v", r.choice(arrs)[0]]]
        if k == 9: self.count("cond"); return ["cond", self.bool_expr(sc, d + 1), self.int_expr(sc, d + 1), self.int_expr(sc, d + 1)]
        if k == 10: return ["neg", self.int_expr(sc, d + 1)]
        if k == 11:
            self.count("and-or-value")
            return [r.choice(["and", "or"]), self.int_expr(sc, d + 1), self.int_expr(sc, d + 1)]
        return ["i", str(r.randrange(10))]

    def bool_expr(self, sc, d=0):
        r = self.r
        k = r.randrange(6) if d < self.max_depth else 0
        if k <= 2: return ["bin", r.choice(["lt", "le", "eq", "ne"]), self.int_expr(sc, d + 1), self.int_expr(sc, d + 1)]
        if k == 3: return ["not", self.bool_expr(sc, d + 1)]
        if k == 4: self.count("short-circuit"); return [r.choice(["and", "or"]), self.bool_expr(sc, d + 1), self.bool_expr(sc, d + 1)]
        return ["b", str(r.randrange(2))]

    def call_expr(self, sc, fn, d):
        r = self.r
        name, t = fn
        _, np, variadic = t.split(":")
        np, variadic = int(np), variadic == "1"
        nfixed = np - 1 if variadic else np
        n = nfixed + (r.randrange(0, 3) if variadic else 0)
        spread = "-"
        args = [self.int_expr(sc, d + 1) for _ in range(n)]
        if r.random() < .3:
            # spread an array literal over the tail
            cut = r.randrange(0, len(args) + 1)
            spread = ["arr"] + args[cut:]
            args = args[:cut]
            self.count("spread")
        return ["call", ["v", name], args, spread]

    def func_lit(self, sc, kind=None):
        """function literal returning an int; registers nothing"""
        r = self.r
        np = r.randrange(0, 4)
        variadic = np > 0 and r.random() < .3
        ps = []
        for _ in range(np):
            p = self.fresh_or_shadow("p", sc + [{}])
            if p in ps: p = self.fresh("p")
            ps.append(p)
        inner = sc + [dict((p, "int") for p in (ps[:-1] if variadic else ps))]
        if variadic: inner[-1][ps[-1]] = "arr:0"
        bscope = {"\0fnbody": "marker"}
        body = self.block(inner, 1, False, True, n=r.randrange(0, 3), own=bscope)
        body.append(["ret", self.int_expr(inner + [bscope], 1)])      # sees what the body declared (and shadowed)
        self.count("func")
        return ["func", ps, "1" if variadic else "0", body], "fn:%d:%d" % (np, 1 if variadic else 0)

    def block(self, sc, depth, in_loop, in_func, n=None, own=None):
        sc = sc + [own if own is not None else {}]
        out = []
        for _ in range(n if n is not None else self.r.randrange(1, 4)):
            out += self.stmt(sc, depth, in_loop, in_func)
        return out

    def stmt(self, sc, depth, in_loop, in_func):
        r = self.r
        k = r.randrange(30)
        cur = sc[-1]
        ints = self.visible(sc, lambda t: t == "int")
        if depth >= self.max_depth and k in (8, 9, 10, 11, 14, 15, 16): k = 0
        if k in (0, 1):
            x = self.fresh_or_shadow("x", sc); e = self.int_expr(sc); cur[x] = "int"; self.count("define")
            return [["def", x, e]]
        if k == 2:
            x = self.fresh_or_shadow("x", sc); self.count("var")
            if r.random() < .5: cur[x] = "undef"; return [["var", x, "-"]]
            e = self.int_expr(sc); cur[x] = "int"; return [["var", x, e]]
        if k == 3:
            self.count("const-iota")
            items, prev = [], False
            for i in range(r.randrange(1, 5)):
                x = self.fresh_or_shadow("c", sc)
                if x in [y for y, _ in items]: x = self.fresh("c")
                if not prev or r.random() < .4:
                    e = r.choice([["iota"], ["bin", "add", ["iota"], ["i", str(r.randrange(5))]], ["bin", "mul", ["iota"], ["i", "2"]], ["i", str(r.randrange(9))]])
                    items.append([x, e]); prev = True
                else: items.append([x, "-"])
            for x, _ in items: cur[x] = "const"
            return [["const"] + items]
        if k in (4, 5) and ints:
            self.count("assign"); return [["set", r.choice(ints)[0], self.int_expr(sc)]]
        if k == 6 and ints:
            self.count("op-assign"); return [["opset", r.choice(ints)[0], r.choice(["add", "sub", "mul"]), self.int_expr(sc)]]
        if k == 7:
            arrs = self.visible(sc, lambda t: t.startswith("arr:") and int(t[4:]) > 0)
            if arrs:
                n, t = r.choice(arrs); self.count("index-assign")
                idx = ["i", str(r.randrange(int(t[4:])))]
                if r.random() < .5: idx = ["call", ["v", "log"], [idx], "-"]
                return [["idxset", ["v", n], idx, self.int_expr(sc)]]
            a = self.fresh_or_shadow("a", sc); n = r.randrange(0, 4); self.count("array")
            lit = ["arr"] + [self.int_expr(sc) for _ in range(n)]
            cur[a] = "arr:%d" % n
            return [["def", a, lit]]
        if k == 8:
            self.count("if")
            return [["if", self.bool_expr(sc), self.block(sc, depth + 1, in_loop, in_func), self.block(sc, depth + 1, in_loop, in_func) if r.random() < .5 else []]]
        if k == 9:
            self.count("for")
            i = self.fresh("i"); lim = r.randrange(0, 4)
            inner = sc + [{i: "loopvar"}]
            body = self.block(inner, depth + 1, True, in_func)
            # the loop variable is read, never assigned, inside the body
            body = [["def", self.fresh("x"), ["bin", "add", ["v", i], self.int_expr(sc)]]] + body if r.random() < .5 else body
            return [["for", ["def", i, ["i", "0"]], ["bin", "lt", ["v", i], ["i", str(lim)]], ["opset", i, "add", ["i", "1"]], body]]
        if k == 10:
            arrs = self.visible(sc, lambda t: t.startswith("arr:"))
            if arrs:
                self.count("for-in")
                kk, vv = self.fresh("k"), self.fresh("e")
                inner = sc + [{kk: "const", vv: "const"}]
                return [["forin", kk, vv, ["v", r.choice(arrs)[0]], self.block(inner, depth + 1, True, in_func)]]
        if k == 11:
            f = self.fresh_or_shadow("f", sc); lit, t = self.func_lit(sc); cur[f] = t
            return [["def", f, lit]]
        if k == 12 and in_loop:
            self.count("break-continue")
            return [["if", self.bool_expr(sc), [[r.choice(["break", "continue"])]], []]]
        if k == 13 and in_func:
            self.count("return")
            return [["if", self.bool_expr(sc), [["ret", self.int_expr(sc)]], []]]
        if k == 14:
            # closures over per-iteration variables and over the loop variable
            self.count("loop-closures")
            fs, i, v, f, kk = self.fresh("fs"), self.fresh("i"), self.fresh("v"), self.fresh("g"), self.fresh("k")
            n, d = r.randrange(1, 4), r.randrange(1, 5)
            body = [["def", v, ["bin", "mul", ["v", i], ["i", str(r.randrange(1, 4))]]],
                    ["set", fs, ["append", ["v", fs], ["func", [], "0", [["opset", v, "add", ["i", str(d)]], ["ret", ["bin", "add", ["v", v], ["v", i]]]]]]]]
            return [["def", fs, ["arr"]],
                    ["for", ["def", i, ["i", "0"]], ["bin", "lt", ["v", i], ["i", str(n)]], ["opset", i, "add", ["i", "1"]], body],
                    ["forin", kk, f, ["v", fs], [["expr", ["call", ["v", "log"], [["call", ["v", f], [], "-"]], "-"]], ["expr", ["call", ["v", "log"], [["call", ["v", f], [], "-"]], "-"]]]]]
        if k == 15:
            # counter factory: closures sharing one captured variable
            self.count("counter")
            mk, c, a, b = self.fresh("mk"), self.fresh("c"), self.fresh("h"), self.fresh("h")
            init = self.int_expr(sc)
            cur[a] = "fn:0:0"; cur[b] = "fn:0:0"
            return [["def", mk, ["func", [], "0", [["def", c, init], ["ret", ["func", [], "0", [["opset", c, "add", ["i", "1"]], ["ret", ["v", c]]]]]]]],
                    ["def", a, ["call", ["v", mk], [], "-"]], ["def", b, ["call", ["v", mk], [], "-"]],
                    ["expr", ["call", ["v", "log"], [["bin", "add", ["call", ["v", a], [], "-"], ["bin", "mul", ["call", ["v", a], [], "-"], ["call", ["v", b], [], "-"]]]], "-"]]]
        if k == 16:
            # recursion: ordinary, in tail position, and as a discarded last statement
            self.count("recursion")
            f, n = self.fresh("rec"), self.fresh("n")
            kind = r.randrange(3)
            base = ["ret", ["i", str(r.randrange(9))]]
            rec = ["call", ["v", f], [["bin", "sub", ["v", n], ["i", "1"]]], "-"]
            if kind == 0: tail = ["ret", ["bin", "add", rec, ["v", n]]]
            elif kind == 1: tail = ["ret", rec]
            else: tail = ["expr", rec]; self.count("discarded-self-call")
            body = [["if", ["bin", "le", ["v", n], ["i", "0"]], [base], []], ["expr", ["call", ["v", "log"], [["v", n]], "-"]], tail]
            cur[f] = "fnrec1" if kind != 2 else "fnrec0"   # small literal arguments only; the discarded form returns undefined
            return [["var", f, "-"], ["set", f, ["func", [n], "0", body]],
                    ["expr", ["call", ["v", "log"], [["call", ["v", f], [["i", str(r.randrange(0, 5))]], "-"]], "-"]]]
        if k == 17:
            # destructuring with fewer / more elements than names
            self.count("destructure")
            n = r.randrange(2, 5); xs = [self.fresh("d") for _ in range(n)]
            m = r.randrange(0, 6)
            rhs = ["arr"] + [self.int_expr(sc) for _ in range(m)]
            for x in xs[:m]: cur[x] = "int"
            for x in xs[m:]: cur[x] = "undef"
            return [["destr", "1", xs, rhs]]
        if k == 18 and len(ints) >= 2:
            self.count("destructure-assign")
            a, b = r.sample([n for n, _ in ints], 2)
            return [["destr", "0", [a, b], ["arr", self.int_expr(sc), self.int_expr(sc)]]]
        if k == 19:
            self.count("block-shadow")
            if ints:
                x = r.choice(ints)[0]
                inner = sc + [{x: "int"}]
                return [["block", ["def", x, self.int_expr(sc)], ["opset", x, "add", ["i", "1"]], ["expr", ["call", ["v", "log"], [["v", x]], "-"]]],
                        ["expr", ["call", ["v", "log"], [["v", x]], "-"]]]
            return [["block"] + self.block(sc, depth + 1, in_loop, in_func)]
        if k == 21:
            # a variadic function changes its rest array; the caller's spread array must not change
            self.count("variadic-mutates-rest")
            f, arr = self.fresh("vf"), self.fresh("va")
            nfix = r.randrange(0, 3)
            ps = [self.fresh("p") for _ in range(nfix)] + [self.fresh("r")]
            rest = ps[-1]
            body = [["if", ["bin", "lt", ["i", "0"], ["len", ["v", rest]]], [["idxset", ["v", rest], ["i", "0"], ["i", "99"]]], []],
                    ["ret", ["len", ["v", rest]]]]
            n = r.randrange(0, 4)
            explicit = r.randrange(0, nfix + 2)
            out = [["def", f, ["func", ps, "1", body]], ["def", arr, ["arr"] + [self.int_expr(sc) for _ in range(n)]]]
            if explicit + n >= nfix:
                out.append(["expr", ["call", ["v", "log"], [["call", ["v", f], [self.int_expr(sc) for _ in range(explicit)], ["v", arr]]], "-"]])
            cur[arr] = "arr:%d" % n
            return out
        if k in (28, 29):
            # two closures made from one function literal (each with its own captured variable) calling each other,
            # in tail position and not: the callee runs with its own captured variables
            self.count("sibling-closures")
            mk, tag, step, n, other, a, b = self.fresh("mk"), self.fresh("tg"), self.fresh("st"), self.fresh("n"), self.fresh("ot"), self.fresh("ca"), self.fresh("cb")
            rec = ["call", ["v", other], [["bin", "sub", ["v", n], ["i", "1"]], ["v", step]], "-"]
            tail = ["ret", rec] if k == 28 else ["ret", ["bin", "add", rec, ["i", "0"]]]
            body = [["if", ["bin", "le", ["v", n], ["i", "0"]], [["ret", ["v", tag]]], []],
                    ["opset", tag, "add", ["i", "100"]], tail]
            e1, e2 = self.int_expr(sc), self.int_expr(sc)
            calls = [["expr", ["call", ["v", "log"], [["call", ["v", x], [["i", str(d)], ["v", y]], "-"]], "-"]]
                     for (x, y, d) in [(a, b, 0), (a, b, 1), (a, b, 2), (b, a, 1), (b, a, 3), (a, a, 2)]]
            return [["def", mk, ["func", [tag], "0", [["var", step, "-"], ["set", step, ["func", [n, other], "0", body]], ["ret", ["v", step]]]]],
                    ["def", a, ["call", ["v", mk], [e1], "-"]], ["def", b, ["call", ["v", mk], [e2], "-"]]] + calls
        if k in (26, 27):
            # a constant, and the same name declared again by a parameter, a local of a block or a loop variable further in:
            # read there in unary and binary expressions, as a call argument and as a constant's initialiser
            self.count("constant-shadowed")
            c, f, g = self.fresh("kc"), self.fresh("sf"), self.fresh("sg")
            lit = str(r.randrange(1, 9))
            arg = self.int_expr(sc)
            inner_use = r.choice([["bin", "add", ["v", c], ["i", "1"]], ["neg", ["v", c]], ["bin", "mul", ["i", "2"], ["v", c]],
                                  ["cond", ["bin", "lt", ["v", c], ["i", "0"]], ["v", c], ["bin", "sub", ["v", c], ["i", "3"]]]])
            out = [["const", [c, ["i", lit]]]]
            cur[c] = "const"
            if k == 26:
                body = [["expr", ["call", ["v", "log"], [inner_use], "-"]], ["ret", ["bin", "add", ["v", c], ["i", "100"]]]]
                if r.random() < .5:
                    # through one more function level: the inner function reads the parameter of the outer one
                    body = [["def", g, ["func", [], "0", [["ret", inner_use]]]], ["ret", ["bin", "add", ["call", ["v", g], [], "-"], ["v", c]]]]
                out += [["def", f, ["func", [c], "0", body]],
                        ["expr", ["call", ["v", "log"], [["call", ["v", f], [arg], "-"]], "-"]],
                        ["expr", ["call", ["v", "log"], [["bin", "add", ["v", c], ["i", "1"]]], "-"]]]
            else:
                out += [["block", ["def", c, arg], ["opset", c, "add", ["i", "1"]],
                         ["for", ["def", f, ["i", "0"]], ["bin", "lt", ["v", f], ["i", "2"]], ["opset", f, "add", ["i", "1"]],
                          [["expr", ["call", ["v", "log"], [inner_use], "-"]]]]],
                        ["expr", ["call", ["v", "log"], [["neg", ["v", c]]], "-"]]]
            return out
        if k in (22, 23):
            # self calls in tail position (returned or discarded) with fewer argument expressions than parameters: the
            # variadic argument left out, or a spread array supplying several parameters
            self.count("tail-call-binding")
            f, a, b = self.fresh("tf"), self.fresh("p"), self.fresh("p")
            form = r.randrange(3)
            if k == 22:
                base = ["ret", ["bin", "add", ["len", ["v", b]], ["bin", "mul", ["v", a], ["i", "100"]]]]
                selfcall = ["call", ["v", f], [["bin", "sub", ["v", a], ["i", "1"]]] + ([["i", "5"]] if form == 2 else []), "-"]
                fn = ["func", [a, b], "1"]
                first = ["call", ["v", f], [["i", str(r.randrange(0, 4))], self.int_expr(sc), self.int_expr(sc)], "-"]
            else:
                base = ["ret", ["v", b]]
                selfcall = ["call", ["v", f], [], ["arr", ["bin", "sub", ["v", a], ["i", "1"]], ["bin", "add", ["v", b], ["i", "10"]]]]
                fn = ["func", [a, b], "0"]
                first = ["call", ["v", f], [["i", str(r.randrange(0, 4))], self.int_expr(sc)], "-"]
            tail = ["ret", selfcall] if form != 1 else ["expr", selfcall]
            body = [["if", ["bin", "le", ["v", a], ["i", "0"]], [base], []], ["expr", ["call", ["v", "log"], [["v", a]], "-"]], tail]
            return [["var", f, "-"], ["set", f, fn + [body]], ["expr", ["call", ["v", "log"], [first], "-"]]]
        if k in (24, 25):
            # a name declared again in the same block by a destructuring define (one of the names is new): a fresh
            # variable; closures made before keep the old one
            self.count("redeclare-captured")
            x, y, z, g, h = self.fresh("w"), self.fresh("w"), self.fresh("w"), self.fresh("g"), self.fresh("g")
            e1, e2, e3, e4 = self.int_expr(sc), self.int_expr(sc), self.int_expr(sc), self.int_expr(sc)   # before the names exist
            first = [["def", x, e1]] if k == 24 else [["destr", "1", [x, z], ["arr", e1, e2]]]
            order = [x, y] if r.randrange(2) else [y, x]
            cur[x] = "int"; cur[y] = "int"
            if k == 25: cur[z] = "int"
            return first + [
                ["def", g, ["func", [], "0", [["ret", ["v", x]]]]],
                ["def", h, ["func", [], "0", [["opset", x, "add", ["i", "1"]], ["ret", ["v", x]]]]],
                ["destr", "1", order, ["arr", e3, e4]],
                ["expr", ["call", ["v", "log"], [["call", ["v", g], [], "-"]], "-"]],
                ["expr", ["call", ["v", "log"], [["call", ["v", h], [], "-"]], "-"]],
                ["expr", ["call", ["v", "log"], [["v", x]], "-"]],
                ["opset", x, "add", ["i", "5"]],
                ["expr", ["call", ["v", "log"], [["bin", "add", ["call", ["v", g], [], "-"], ["v", x]]], "-"]]]
        if k == 20:
            fns = self.visible(sc, lambda t: t.startswith("fn:"))
            if fns: self.count("call-stmt"); return [["expr", self.call_expr(sc, r.choice(fns), 0)]]
        self.count("log")
        return [["expr", ["call", ["v", "log"], [self.int_expr(sc)], "-"]]]

    def program(self, nstmts=None):
        self.uid = 0
        top = [{"log": "logfn"}]
        prog = [["def", "out", ["arr"]],
                ["def", "log", ["func", ["x"], "0", [["set", "out", ["append", ["v", "out"], ["v", "x"]]], ["ret", ["v", "x"]]]]]]
        for _ in range(nstmts or self.r.randrange(3, 10)):
            prog += self.stmt(top, 0, False, False)
        rv = [n for n, t in self.visible(top, lambda t: t in ("int", "undef", "const") or t.startswith("arr:"))]
        prog.append(["ret", ["arr", ["v", "out"]] + [["v", n] for n in rv[:6]]])
        return prog

# ---------------------------------------------------------------- rendering

def rexpr(e):
    k = e[0]
    if k == "i": return "(%s)" % e[1] if e[1].startswith("-") else e[1]
    if k == "b": return "true" if e[1] == "1" else "false"
    if k == "s": return '"%s"' % bytes.fromhex(e[1][1:]).decode()
    if k == "u": return "undefined"
    if k == "iota": return "iota"
    if k == "v": return e[1]
    if k == "bin": return "(%s %s %s)" % (rexpr(e[2]), OPS[e[1]], rexpr(e[3]))
    if k == "and": return "(%s && %s)" % (rexpr(e[1]), rexpr(e[2]))
    if k == "or": return "(%s || %s)" % (rexpr(e[1]), rexpr(e[2]))
    if k == "not": return "(!%s)" % rexpr(e[1])
    if k == "neg": return "(-%s)" % rexpr(e[1])
    if k == "cond": return "(%s ? %s : %s)" % (rexpr(e[1]), rexpr(e[2]), rexpr(e[3]))
    if k == "arr": return "[" + ", ".join(rexpr(x) for x in e[1:]) + "]"
    if k == "idx": return "%s[%s]" % (rexpr(e[1]), rexpr(e[2]))
    if k == "len": return "len(%s)" % rexpr(e[1])
    if k == "append": return "append(%s)" % ", ".join(rexpr(x) for x in e[1:])
    if k == "call":
        args = [rexpr(x) for x in e[2]]
        if e[3] != "-": args.append("..." + rexpr(e[3]))
        return "%s(%s)" % (rexpr(e[1]), ", ".join(args))
    if k == "func":
        ps = list(e[1])
        if e[2] == "1": ps[-1] = "..." + ps[-1]
        return "func(%s) {\n%s\n}" % (", ".join(ps), rblock(e[3], 1))
    raise ValueError(k)

def rsimple(s):
    k = s[0]
    if k == "def": return "%s := %s" % (s[1], rexpr(s[2]))
    if k == "opset": return "%s %s= %s" % (s[1], OPS[s[2]], rexpr(s[3]))
    if k == "set": return "%s = %s" % (s[1], rexpr(s[2]))
    raise ValueError(k)

def rstmt(s, ind=0):
    p = "\t" * ind
    k = s[0]
    if k in ("def", "set", "opset"): return p + rsimple(s)
    if k == "var": return p + ("var %s" % s[1] if s[2] == "-" else "var %s = %s" % (s[1], rexpr(s[2])))
    if k == "const":
        return p + "const (\n" + "\n".join(p + "\t" + (x if e == "-" else "%s = %s" % (x, rexpr(e))) for x, e in s[1:]) + "\n" + p + ")"
    if k == "idxset": return p + "%s[%s] = %s" % (rexpr(s[1]), rexpr(s[2]), rexpr(s[3]))
    if k == "destr": return p + "%s %s %s" % (", ".join(s[2]), ":=" if s[1] == "1" else "=", rexpr(s[3]))
    if k == "expr": return p + rexpr(s[1])
    if k == "if":
        out = p + "if %s {\n%s\n%s}" % (rexpr(s[1]), rblock(s[2], ind + 1), p)
        if s[3]: out += " else {\n%s\n%s}" % (rblock(s[3], ind + 1), p)
        return out
    if k == "for":
        return p + "for %s; %s; %s {\n%s\n%s}" % ("" if s[1] == "-" else rsimple(s[1]), "" if s[2] == "-" else rexpr(s[2]), "" if s[3] == "-" else rsimple(s[3]), rblock(s[4], ind + 1), p)
    if k == "forin": return p + "for %s, %s in %s {\n%s\n%s}" % (s[1], s[2], rexpr(s[3]), rblock(s[4], ind + 1), p)
    if k == "break": return p + "break"
    if k == "continue": return p + "continue"
    if k == "ret": return p + ("return" if s[1] == "-" else "return " + rexpr(s[1]))
    if k == "block": return p + "if true {\n%s\n%s}" % (rblock(s[1:], ind + 1), p)   # a bare { starts a map literal
    raise ValueError(k)

def rblock(b, ind): return "\n".join(rstmt(s, ind) for s in b)
def render(prog): return rblock(prog, 0) + "\n"
