open Ugomodel
type string = Stdlib.String.t
open Sexp
open Codec

let ascii_of_char (c : char) : ascii =
  let n = Char.code c in
  let b i = (n lsr i) land 1 = 1 in
  Ascii (b 0, b 1, b 2, b 3, b 4, b 5, b 6, b 7)
let char_of_ascii (Ascii (b0, b1, b2, b3, b4, b5, b6, b7)) : char =
  let v b i = if b then 1 lsl i else 0 in
  Char.chr (v b0 0 + v b1 1 + v b2 2 + v b3 3 + v b4 4 + v b5 5 + v b6 6 + v b7 7)
let rec coq_string_of (s : string) (i : int) : Ugomodel.string =
  if i >= String.length s then EmptyString else String (ascii_of_char s.[i], coq_string_of s (i + 1))
let cstr (s : string) = coq_string_of s 0
let rec ocaml_string_of (s : Ugomodel.string) : string =
  match s with EmptyString -> "" | String (c, r) -> String.make 1 (char_of_ascii c) ^ ocaml_string_of r

let name_of_atom a = cstr (string_of_bstr (bstr_of_atom a))
let atom_of_name n = atom_of_bstr (bstr_of_string (ocaml_string_of n))

let op_of_sexp = function
  | L [A "fork"; A b] -> OFork (b = "1")
  | L [A "leave"] -> OLeave
  | L [A "resolve"; A n] -> OResolve (name_of_atom n)
  | L [A "deflocal"; A n] -> ODefineLocal (name_of_atom n)
  | L [A "defglobal"; A n] -> ODefineGlobal (name_of_atom n)
  | L [A "defconst"; A n] -> ODefineConst (name_of_atom n)
  | L (A "params" :: l) -> OSetParams (List.map (function A n -> name_of_atom n | _ -> failwith "param") l)
  | L (A "disable" :: l) -> ODisable (List.map (function A n -> name_of_atom n | _ -> failwith "name") l)
  | s -> failwith ("bad op " ^ Sexp.to_string s)

let scope_atom = function ScGlobal -> "GLOBAL" | ScLocal -> "LOCAL" | ScBuiltin -> "BUILTIN" | ScFree -> "FREE" | ScConstLit -> "CONSTLIT"

let sexp_of_res = function
  | RNone -> L [A "none"]
  | RBool b -> L [A "b"; A (if b then "1" else "0")]
  | RSym (s, f) -> L [A "sym"; A (atom_of_name s.s_name); A (string_of_z s.s_index); A (scope_atom s.s_scope);
                      A (if s.s_const then "1" else "0"); A (if f then "1" else "0")]

let run_loads (args : Sexp.t list) : Sexp.t =
  match args with
  | [L (A "loads" :: ps); A n] ->
    let ps = List.map (function L [A c; A m] -> (z_of_string c, z_of_string m) | _ -> failwith "pair") ps in
    L [A "b"; A (if loads_ok ps (z_of_string n) then "1" else "0")]
  | _ -> failwith "loadsok"

(* a path string is split at every '/' (and joined back): the model works on the elements *)
let path_of_string (s : string) : path =
  { p_abs = String.length s > 0 && s.[0] = '/'; p_segs = List.map cstr (String.split_on_char '/' s) }
let string_of_path (p : path) : string =
  let segs = List.map ocaml_string_of p.p_segs in
  if p.p_abs then "/" ^ String.concat "/" segs else if segs = [] then "." else String.concat "/" segs
let str_of_atom a = string_of_bstr (bstr_of_atom a)

(* (finame <cwd hex> (<workdir hex> <name hex>)...) -> (finame <Name() hex>...) *)
let run_finame (args : Sexp.t list) : Sexp.t =
  match args with
  | A cwd :: ps ->
    let cwd = path_of_string (str_of_atom cwd) in
    L (A "finame" :: List.map (function
        | L [A wd; A n] ->
          let n = str_of_atom n in
          if n = "" then A "none"
          else A (atom_of_bstr (bstr_of_string (string_of_path (fi_name cwd (path_of_string (str_of_atom wd)) (path_of_string n)))))
        | _ -> failwith "finame pair") ps)
  | _ -> failwith "finame"

let run (kind : string) (args : Sexp.t list) : Sexp.t =
  if kind = "loadsok" then run_loads args else
  if kind = "finame" then run_finame args else
  let ops = List.map op_of_sexp args in
  let (_, rs) = run_ops new_symbol_table ops in
  L (List.map sexp_of_res rs)
