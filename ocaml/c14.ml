open Ugomodel
type string = Stdlib.String.t
open Sexp
open Codec

let nat_of_int = C03.nat_of_int

let run (kind : string) (args : Sexp.t list) : Sexp.t =
  match kind, args with
  | "callbind", (A np :: A variadic :: A spread :: A how :: vals) ->
    let np = nat_of_int (int_of_string np) and variadic = (variadic = "1") and spread = (spread = "1") in
    let vals = List.map value_of_sexp vals in
    (match how with
     | "script" ->
       (match call_compiled np variadic vals spread with
        | Some ps -> L [A "ok"; sexp_of_value (PArr ps)]
        | None -> L [A "err"])
     | _ -> L [A "ok"; sexp_of_value (PArr (init_locals np variadic vals))])
  | _ -> failwith "c14: bad case"
