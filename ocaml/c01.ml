open Ugomodel
type string = Stdlib.String.t
open Sexp
open Codec

let lit_of_sexp (s : Sexp.t) : lit =
  match s with
  | L [A "i"; A d] -> LInt (z_of_string d)
  | L [A "u"; A d] -> LUint (z_of_string d)
  | L [A "f"; A h] -> LFloat (float_of_atom h)
  | L [A "s"; A h] -> LStr (bstr_of_atom h)
  | L [A "b"; A d] -> LBool (d = "1")
  | L [A "c"; A d] -> LChar (z_of_string d)
  | L [A "n"] -> LUndef
  | _ -> failwith "bad lit"

let sexp_of_lit = function
  | LInt z -> L [A "i"; A (string_of_z z)]
  | LUint z -> L [A "u"; A (string_of_z z)]
  | LFloat f -> L [A "f"; A (atom_of_float f)]
  | LStr s -> L [A "s"; A (atom_of_bstr s)]
  | LBool b -> L [A "b"; A (if b then "1" else "0")]
  | LChar c -> L [A "c"; A (string_of_z c)]
  | LUndef -> L [A "n"]

(* expression trees as the harness prints them from the parser's syntax tree *)
let rec oexpr_of_sexp (s : Sexp.t) : oexpr =
  match s with
  | L [A "l"; v] -> OLit (lit_of_sexp v)
  | L [A "v"; A i] -> OVar (C03.nat_of_int (int_of_string i))
  | L [A "bin"; A t; a; b] -> OBin (C15.tok_of_atom t, oexpr_of_sexp a, oexpr_of_sexp b)
  | L [A "eq"; a; b] -> OEq (oexpr_of_sexp a, oexpr_of_sexp b)
  | L [A "ne"; a; b] -> ONe (oexpr_of_sexp a, oexpr_of_sexp b)
  | L [A "un"; A t; a] -> OUn (C15.tok_of_atom t, oexpr_of_sexp a)
  | L [A "and"; a; b] -> OAnd (oexpr_of_sexp a, oexpr_of_sexp b)
  | L [A "or"; a; b] -> OOr (oexpr_of_sexp a, oexpr_of_sexp b)
  | L [A "cond"; c; a; b] -> OCond (oexpr_of_sexp c, oexpr_of_sexp a, oexpr_of_sexp b)
  | L [A "other"; A i] -> OOther (z_of_string i)
  | _ -> failwith ("bad expression " ^ Sexp.to_string s)

let run (kind : string) (args : Sexp.t list) : Sexp.t =
  match kind, args with
  | "optexpr", [before; L [A "after"; after]] ->
    let e = oexpr_of_sexp before in
    if fold_ok e (oexpr_of_sexp after) then L [A "b"; A "1"]
    else if fold_inconclusive e then L [A "inconclusive"] else L [A "b"; A "0"]
  | "optexpr", [before; L [A "refused"]] ->
    let e = oexpr_of_sexp before in
    if const_error e then L [A "justified"; A "1"]
    else if fold_inconclusive e then L [A "inconclusive"] else L [A "justified"; A "0"]
  | "foldbin", [A t; a; b] ->
    (match fold_binop (C15.tok_of_atom t) (lit_of_sexp a) (lit_of_sexp b) with
     | Some e -> L [A "fold"; sexp_of_lit e] | None -> L [A "nofold"])
  | "foldun", [A t; a] ->
    (match fold_unop (C15.tok_of_atom t) (lit_of_sexp a) with
     | Some e -> L [A "fold"; sexp_of_lit e] | None -> L [A "nofold"])
  | "litfalsy", [a] -> L [A "b"; A (if is_literal_falsy (lit_of_sexp a) then "1" else "0")]
  | _ -> failwith "c01: bad case"
