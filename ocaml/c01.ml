open Ugomodel
type string = Stdlib.String.t
open Sexp
open Codec

let lit_of_sexp (s : Sexp.t) : lit =
  match s with
  | L [A "i"; A d] -> LInt (z_of_string d)
  | L [A "u"; A d] -> LUint (z_of_string d)
  | L [A "f"; A h] -> LFloat (float_of_atom h)
  | L [A "s"; A h] -> LStr (bstr_of_atom h)
  | L [A "b"; A d] -> LBool (d = "1")
  | L [A "c"; A d] -> LChar (z_of_string d)
  | L [A "n"] -> LUndef
  | _ -> failwith "bad lit"

let sexp_of_lit = function
  | LInt z -> L [A "i"; A (string_of_z z)]
  | LUint z -> L [A "u"; A (string_of_z z)]
  | LFloat f -> L [A "f"; A (atom_of_float f)]
  | LStr s -> L [A "s"; A (atom_of_bstr s)]
  | LBool b -> L [A "b"; A (if b then "1" else "0")]
  | LChar c -> L [A "c"; A (string_of_z c)]
  | LUndef -> L [A "n"]

let run (kind : string) (args : Sexp.t list) : Sexp.t =
  match kind, args with
  | "foldbin", [A t; a; b] ->
    (match fold_binop (C15.tok_of_atom t) (lit_of_sexp a) (lit_of_sexp b) with
     | Some e -> L [A "fold"; sexp_of_lit e] | None -> L [A "nofold"])
  | "foldun", [A t; a] ->
    (match fold_unop (C15.tok_of_atom t) (lit_of_sexp a) with
     | Some e -> L [A "fold"; sexp_of_lit e] | None -> L [A "nofold"])
  | "litfalsy", [a] -> L [A "b"; A (if is_literal_falsy (lit_of_sexp a) then "1" else "0")]
  | _ -> failwith "c01: bad case"
