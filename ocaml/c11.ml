open Ugomodel
type string = Stdlib.String.t
open Sexp
open Codec

let zlist_of_atom (a : string) : z list =
  List.map (fun b -> z_of_int (int_of_byte b)) (bstr_of_atom a)
let atom_of_zlist (l : z list) : string =
  let b = Buffer.create 64 in Buffer.add_char b 'x';
  List.iter (fun z -> Buffer.add_string b (Printf.sprintf "%02x" (int_of_z z))) l; Buffer.contents b

let sm_of_sexp = function
  | L (A "sm" :: l) -> List.map (function L [A k; A v] -> (z_of_string k, z_of_string v) | _ -> failwith "bad sm") l
  | _ -> failwith "bad sm"
let sexp_of_sm l =
  let l = List.sort (fun (a, _) (b, _) -> compare (int_of_z a) (int_of_z b)) l in
  L (A "sm" :: List.map (fun (k, v) -> L [A (string_of_z k); A (string_of_z v)]) l)

let run (kind : string) (args : Sexp.t list) : Sexp.t =
  match kind, args with
  | "v1conv", [A ins; sm] ->
    (match conv_comp_func (zlist_of_atom ins) (sm_of_sexp sm) with
     | Ok (i2, m2) -> L [A "ok"; A (atom_of_zlist i2); sexp_of_sm m2]
     | Err e -> L [A "err"; A (atom_of_bstr e.err_msg)]
     | GoPanic _ -> L [A "panic"]
     | OutOfFuel -> L [A "fuel"])
  | "v1reloc", [A i1; m1; A i2; m2] ->
    L [A "b"; A (if reloc_ok (zlist_of_atom i1) (sm_of_sexp m1) (zlist_of_atom i2) (sm_of_sexp m2) then "1" else "0")]
  | _ -> failwith "c11: bad case"
