open Ugomodel
type string = Stdlib.String.t
open Sexp
open Codec

let zl = C11.zlist_of_atom
let az = C11.atom_of_zlist

let rec cval_of_sexp (s : Sexp.t) : cval =
  match s with
  | L [A "n"] -> CUndef
  | L [A "b"; A d] -> CBool (d = "1")
  | L [A "i"; A d] -> CInt (z_of_string d)
  | L [A "u"; A d] -> CUint (z_of_string d)
  | L [A "c"; A d] -> CChar (z_of_string d)
  | L [A "f"; A h] -> CFloat (z_of_hex h)
  | L [A "s"; A h] -> CStr (zl h)
  | L [A "y"; A h] -> CBytes (zl h)
  | L (A "a" :: l) -> CArr (List.map cval_of_sexp l)
  | L (A "m" :: l) -> CMap (List.map ckv l)
  | L [A "sm"; A "nil"] -> CSyncMap None
  | L (A "sm" :: l) -> CSyncMap (Some (List.map ckv l))
  | L [A "fn"; A h] -> CFunc (zl h)
  | L [A "bfn"; A h] -> CBuiltin (zl h)
  | L [A "cf"; A p; A l; insts; A v; sm] ->
    CCompiled { cf_params = z_of_string p; cf_locals = z_of_string l;
                cf_insts = (match insts with A "nil" -> None | A h -> Some (zl h) | _ -> failwith "insts");
                cf_variadic = (v = "1");
                cf_srcmap = (match sm with A "nil" -> None | s -> Some (C11.sm_of_sexp s)) }
  | _ -> failwith ("bad cval: " ^ Sexp.to_string s)
and ckv = function
  | L [A k; v] -> (zl k, cval_of_sexp v)
  | _ -> failwith "bad kv"

let rec sexp_of_cval (v : cval) : Sexp.t =
  match v with
  | CUndef -> L [A "n"]
  | CBool b -> L [A "b"; A (if b then "1" else "0")]
  | CInt z -> L [A "i"; A (string_of_z z)]
  | CUint z -> L [A "u"; A (string_of_z z)]
  | CChar z -> L [A "c"; A (string_of_z z)]
  | CFloat b -> L [A "f"; A (hex_of_z_width b 16)]
  | CStr s -> L [A "s"; A (az s)]
  | CBytes s -> L [A "y"; A (az s)]
  | CArr l -> L (A "a" :: List.map sexp_of_cval l)
  | CMap m -> L (A "m" :: skv m)
  | CSyncMap None -> L [A "sm"; A "nil"]
  | CSyncMap (Some m) -> L (A "sm" :: skv m)
  | CFunc n -> L [A "fn"; A (az n)]
  | CBuiltin n -> L [A "bfn"; A (az n)]
  | CCompiled f ->
    L [A "cf"; A (string_of_z f.cf_params); A (string_of_z f.cf_locals);
       (match f.cf_insts with None -> A "nil" | Some i -> A (az i));
       A (if f.cf_variadic then "1" else "0");
       (match f.cf_srcmap with None -> A "nil" | Some m -> C11.sexp_of_sm (dedup_last m))]
(* a Go map: the last binding of a key wins; printed sorted by key *)
and dedup_last m =
  List.fold_left (fun acc (k, v) -> (k, v) :: List.filter (fun (k', _) -> k' <> k) acc) [] m
and skv m =
  let m = List.fold_left (fun acc (k, v) -> (k, v) :: List.filter (fun (k', _) -> k' <> k) acc) [] m in
  let l = List.map (fun (k, v) -> (az k, sexp_of_cval v)) m in
  List.map (fun (k, v) -> L [A k; v]) (sort_kv l)

let run (kind : string) (args : Sexp.t list) : Sexp.t =
  match kind, args with
  | "enc", [v] -> L [A "ok"; A (az (encode (cval_of_sexp v)))]
  | "dec", [A h] ->
    (match decode (zl h) with
     | Ok (v, rest) -> L [A "ok"; sexp_of_cval v; A (string_of_int (List.length rest))]
     | Err e -> if Codec.string_of_bstr e.err_msg = "gob" then L [A "gob"] else L [A "err"]
     | GoPanic _ -> L [A "panic"]
     | OutOfFuel -> L [A "fuel"])
  | _ -> failwith "c04: bad case"
