open Ugomodel
type string = Stdlib.String.t
open Sexp
open Codec

let cstr = C13.cstr
let name_of a = cstr (string_of_bstr (bstr_of_atom a))

let bop_of = function
  | "add" -> OBAdd | "sub" -> OBSub | "mul" -> OBMul | "lt" -> OBLt | "le" -> OBLe | "eq" -> OBEq | "ne" -> OBNe
  | s -> failwith ("c02: operator " ^ s)

let rec expr_of (s : Sexp.t) : sem_expr =
  match s with
  | L [A "i"; A d] -> XIntE (z_of_string d)
  | L [A "b"; A d] -> XBoolE (d = "1")
  | L [A "s"; A h] -> XStrE (name_of h)
  | L [A "u"] -> XUndefE
  | L [A "iota"] -> XIotaE
  | L [A "v"; A n] -> XVarE (cstr n)
  | L [A "bin"; A op; a; b] -> XBinE (bop_of op, expr_of a, expr_of b)
  | L [A "and"; a; b] -> XAndE (expr_of a, expr_of b)
  | L [A "or"; a; b] -> XOrE (expr_of a, expr_of b)
  | L [A "not"; a] -> XNotE (expr_of a)
  | L [A "neg"; a] -> XNegE (expr_of a)
  | L [A "cond"; c; a; b] -> XCondE (expr_of c, expr_of a, expr_of b)
  | L (A "arr" :: es) -> XArrE (List.map expr_of es)
  | L [A "idx"; a; i] -> XIndexE (expr_of a, expr_of i)
  | L [A "len"; a] -> XLenE (expr_of a)
  | L (A "append" :: a :: es) -> XAppendE (expr_of a, List.map expr_of es)
  | L [A "call"; f; L args; sp] -> XCallE (expr_of f, List.map expr_of args, opt_expr sp)
  | L [A "func"; L ps; A variadic; L body] ->
    XFuncE (List.map (function A p -> cstr p | _ -> failwith "c02: param") ps, variadic = "1", List.map stmt_of body)
  | _ -> failwith ("c02: expr " ^ Sexp.to_string s)
and opt_expr = function A "-" -> None | s -> Some (expr_of s)
and opt_stmt = function A "-" -> None | s -> Some (stmt_of s)
and stmt_of (s : Sexp.t) : sem_stmt =
  match s with
  | L [A "def"; A x; e] -> TDefineS (cstr x, expr_of e)
  | L [A "var"; A x; e] -> TVarS (cstr x, opt_expr e)
  | L (A "const" :: items) -> TConstS (List.map (function L [A x; e] -> (cstr x, opt_expr e) | _ -> failwith "c02: const") items)
  | L [A "set"; A x; e] -> TAssignS (cstr x, expr_of e)
  | L [A "opset"; A x; A op; e] -> TOpAssignS (cstr x, bop_of op, expr_of e)
  | L [A "idxset"; a; i; e] -> TIndexAssignS (expr_of a, expr_of i, expr_of e)
  | L [A "destr"; A d; L xs; e] -> TDestructS (d = "1", List.map (function A x -> cstr x | _ -> failwith "c02") xs, expr_of e)
  | L [A "expr"; e] -> TExprS (expr_of e)
  | L [A "if"; c; L t; L f] -> TIfS (expr_of c, List.map stmt_of t, List.map stmt_of f)
  | L [A "for"; i; c; p; L body] -> TForS (opt_stmt i, opt_expr c, opt_stmt p, List.map stmt_of body)
  | L [A "forin"; A k; A v; e; L body] -> TForInS (cstr k, cstr v, expr_of e, List.map stmt_of body)
  | L [A "break"] -> TBreakS
  | L [A "continue"] -> TContinueS
  | L [A "ret"; e] -> TReturnS (opt_expr e)
  | L (A "block" :: b) -> TBlockS (List.map stmt_of b)
  | _ -> failwith ("c02: stmt " ^ Sexp.to_string s)

let rec sexp_of_obs = function
  | OBUndef -> L [A "n"]
  | OBInt z -> L [A "i"; A (string_of_z z)]
  | OBBool b -> L [A "b"; A (if b then "1" else "0")]
  | OBStr s -> L [A "s"; A (atom_of_bstr (bstr_of_string (C13.ocaml_string_of s)))]
  | OBArr l -> L (A "a" :: List.map sexp_of_obs l)
  | OBFn -> L [A "fn"; A (atom_of_bstr (bstr_of_string "compiled"))]
  | OBDeep -> L [A "deep"]

(* ---- expression compiler (ExprComp): model code, source-level value and machine value ---- *)
let tok_name = function
  | TAdd -> "add" | TSub -> "sub" | TMul -> "mul" | TQuo -> "quo" | TRem -> "rem"
  | TAnd -> "and" | TOr -> "or" | TXor -> "xor" | TAndNot -> "andnot" | TShl -> "shl" | TShr -> "shr"
  | TLess -> "lt" | TLessEq -> "le" | TGreater -> "gt" | TGreaterEq -> "ge" | TNot -> "not" | TOther -> "other"

let rec cexpr_of (s : Sexp.t) : cexpr =
  let nat a = C03.nat_of_int (int_of_string a) in
  match s with
  | L [A "k"; A i] -> XConst (nat i)
  | L [A "l"; A i] -> XLocal (nat i)
  | L [A "bin"; A t; a; b] -> XBin (C15.tok_of_atom t, cexpr_of a, cexpr_of b)
  | L [A "eq"; a; b] -> XEq (cexpr_of a, cexpr_of b)
  | L [A "ne"; a; b] -> XNe (cexpr_of a, cexpr_of b)
  | L [A "un"; A t; a] -> XUn (C15.tok_of_atom t, cexpr_of a)
  | L [A "and"; a; b] -> XAnd (cexpr_of a, cexpr_of b)
  | L [A "or"; a; b] -> XOr (cexpr_of a, cexpr_of b)
  | L [A "cond"; c; a; b] -> XCond (cexpr_of c, cexpr_of a, cexpr_of b)
  | _ -> failwith ("c02: cexpr " ^ Sexp.to_string s)

let int_of_nat n = let rec go n acc = match n with O -> acc | S m -> go m (acc + 1) in go n 0

let sexp_of_instr (pos : z) (i : xinstr) : Sexp.t =
  let p = A (string_of_z pos) in
  match i with
  | XIConst c -> L [p; A "CONSTANT"; A (string_of_int (int_of_nat c))]
  | XIGetLocal k -> L [p; A "GETLOCAL"; A (string_of_int (int_of_nat k))]
  | XIBinOp t -> L [p; A "BINARYOP"; A (tok_name t)]
  | XIEqual -> L [p; A "EQUAL"]
  | XINotEqual -> L [p; A "NOTEQUAL"]
  | XIUnary t -> L [p; A "UNARY"; A (tok_name t)]
  | XIAndJump t -> L [p; A "ANDJUMP"; A (string_of_z t)]
  | XIOrJump t -> L [p; A "ORJUMP"; A (string_of_z t)]
  | XIJumpFalsy t -> L [p; A "JUMPFALSY"; A (string_of_z t)]
  | XIJump t -> L [p; A "JUMP"; A (string_of_z t)]
  | XISetLocal k -> L [p; A "SETLOCAL"; A (string_of_int (int_of_nat k))]
  | XIDefineLocal k -> L [p; A "DEFINELOCAL"; A (string_of_int (int_of_nat k))]
  | XIPop -> L [p; A "POP"]
  | XIReturn -> L [p; A "RETURN"; A "1"]

(* ---- statement compiler (StmtComp) ---- *)
let rec cstmt_of (s : Sexp.t) : cstmt =
  let nat a = C03.nat_of_int (int_of_string a) in
  match s with
  | L [A "skip"] -> TSkip
  | L (A "seq" :: l) -> List.fold_right (fun a b -> TSeq (cstmt_of a, b)) l TSkip
  | L [A "set"; A i; e] -> TSet (nat i, cexpr_of e)
  | L [A "def"; A i; e] -> TDef (nat i, cexpr_of e)
  | L [A "exp"; e] -> TExp (cexpr_of e)
  | L [A "if"; c; a] -> TIf (cexpr_of c, cstmt_of a)
  | L [A "ifelse"; c; a; b] -> TIfElse (cexpr_of c, cstmt_of a, cstmt_of b)
  | L [A "for"; c; body; post] -> TFor (cexpr_of c, cstmt_of body, cstmt_of post)
  | L [A "break"] -> TBreak
  | L [A "continue"] -> TContinue
  | L [A "ret"; e] -> TRet (cexpr_of e)
  | _ -> failwith ("c02: cstmt " ^ Sexp.to_string s)

let run_stmt (args : Sexp.t list) : Sexp.t =
  match args with
  | [s; L consts; L locals] ->
    let s = cstmt_of s in
    let consts = List.map value_of_sexp consts and locals = List.map value_of_sexp locals in
    let code = scompile Z0 Z0 Z0 s in
    let rec listing pos = function [] -> [] | i :: r -> sexp_of_instr pos i :: listing (Z.add pos (xisize i)) r in
    let spec = (match sexec (C03.nat_of_int 50000) consts locals s with
        | Ok (QReturn v, _) -> L [A "ok"; sexp_of_value v]
        | Ok (_, _) -> L [A "fell-through"]
        | Err _ -> L [A "err"]
        | OutOfFuel -> L [A "inconclusive"]
        | _ -> L [A "undefined-behaviour"]) in
    let mach = (match xmrun (C03.nat_of_int 300000) consts code (xcsize code) (XRunning (Z0, locals, [])) with
        | XReturned v -> L [A "ok"; sexp_of_value v]
        | XThrown _ -> L [A "err"]
        | XRunning (_, _, _) -> L [A "fell-through"]
        | _ -> L [A "stuck"]) in
    L [A "stmtcomp"; L (A "code" :: listing Z0 code); spec; mach; A (if wf s then "wf" else "not-wf")]
  | _ -> failwith "c02: stmtcomp"

let run_expr (args : Sexp.t list) : Sexp.t =
  match args with
  | [e; L consts; L locals] ->
    let e = cexpr_of e in
    let consts = List.map value_of_sexp consts and locals = List.map value_of_sexp locals in
    let code = xcompile Z0 e in
    let rec listing pos = function [] -> [] | i :: r -> sexp_of_instr pos i :: listing (Z.add pos (xisize i)) r in
    let spec = (match xceval consts locals e with Ok v -> L [A "ok"; sexp_of_value v] | Err _ -> L [A "err"] | _ -> L [A "undefined-behaviour"]) in
    let mach = (match xmrun (C03.nat_of_int 100000) consts code (xcsize code) (XRunning (Z0, locals, [])) with
        | XRunning (_, _, [v]) -> L [A "ok"; sexp_of_value v]
        | XThrown _ -> L [A "err"]
        | _ -> L [A "stuck"]) in
    L [A "exprcomp"; L (A "code" :: listing Z0 code); spec; mach]
  | _ -> failwith "c02: exprcomp"

let run (kind : string) (args : Sexp.t list) : Sexp.t =
  match kind, args with
  | "sem02", [L prog] ->
    (match sem_run_program (C03.nat_of_int 4000) (List.map stmt_of prog) with
     | PValue o -> L [A "ok"; sexp_of_obs o]
     | PError n -> L [A "err"; A (C13.ocaml_string_of n)]
     | PFuel -> L [A "fuel"])
  | "exprcomp", _ -> run_expr args
  | "stmtcomp", _ -> run_stmt args
  | _ -> failwith "c02: bad case"

