(* minimal s-expressions: atoms contain no whitespace or parentheses *)
type t = A of string | L of t list

let parse (s : string) : t =
  let n = String.length s in
  let pos = ref 0 in
  let rec skip () = if !pos < n && (s.[!pos] = ' ' || s.[!pos] = '\t' || s.[!pos] = '\n' || s.[!pos] = '\r') then (incr pos; skip ()) in
  let rec item () =
    skip ();
    if !pos >= n then failwith "sexp: eof"
    else if s.[!pos] = '(' then begin
      incr pos;
      let acc = ref [] in
      let rec loop () =
        skip ();
        if !pos >= n then failwith "sexp: unclosed"
        else if s.[!pos] = ')' then incr pos
        else (acc := item () :: !acc; loop ()) in
      loop (); L (List.rev !acc)
    end else begin
      let st = !pos in
      while !pos < n && not (s.[!pos] = ' ' || s.[!pos] = '(' || s.[!pos] = ')' || s.[!pos] = '\t' || s.[!pos] = '\n' || s.[!pos] = '\r') do incr pos done;
      A (String.sub s st (!pos - st))
    end in
  item ()

let rec to_buf b = function
  | A a -> Buffer.add_string b a
  | L l -> Buffer.add_char b '(';
    List.iteri (fun i x -> if i > 0 then Buffer.add_char b ' '; to_buf b x) l;
    Buffer.add_char b ')'

let to_string t = let b = Buffer.create 64 in to_buf b t; Buffer.contents b
