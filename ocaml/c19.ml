open Ugomodel
type string = Stdlib.String.t
open Sexp
open Codec

let cstr = C13.cstr
let ostr = C13.ocaml_string_of

let class_of = function
  | "undefined" -> KUndefined | "bool" -> KBool | "int" -> KInt | "uint" -> KUint | "float" -> KFloat
  | "char" -> KChar | "string" -> KString | "bytes" -> KBytes | "array" -> KArray | "map" -> KMap
  | "syncmap" -> KSyncMap | "error" -> KError | "rterror" -> KRtError | "function" -> KFunction
  | "builtinfn" -> KBuiltinFn | "compiledfn" -> KCompiledFn | "time" -> KTime | "location" -> KLocation
  | _ -> KOther

let aval_of = function
  | L [A _; A cls; A tn; A flags] ->
    { av_class = class_of cls; av_tn = cstr tn;
      av_pint = flags.[0] <> '-'; av_pint64 = flags.[1] <> '-'; av_puint = flags.[2] <> '-';
      av_pfloat = flags.[3] <> '-'; av_ptime = flags.[4] <> '-'; av_ploc = flags.[5] <> '-' }
  | _ -> failwith "c19: bad pool entry"

let tok_of_res = function
  | Ok (OWrongNum (n, k)) -> A ("W:" ^ string_of_z n ^ ":" ^ string_of_z k)
  | Ok (OTypeErr (pos, want, got)) -> L [A "T"; A (atom_of_bstr (bstr_of_string (ostr pos))); A (atom_of_bstr (bstr_of_string (ostr want))); A (atom_of_bstr (bstr_of_string (ostr got)))]
  | Ok (OUnknownConv c) -> A ("U:" ^ ostr c)
  | Ok OBody -> A "B"
  | GoPanic _ -> A "P"
  | _ -> A "?"

let size_res = function
  | Ok n -> L [A "ok"; A (string_of_z n)]
  | Err e -> L [A "err"; A (if e = err_negative then "negative" else "toolarge")]
  | GoPanic _ -> L [A "panic"]
  | OutOfFuel -> L [A "fuel"]

let run (kind : string) (args : Sexp.t list) : Sexp.t =
  match kind, args with
  | "calls19", [A cid; A mode; L pool; L tuples] ->
    let m = z_of_int (match mode with "value" -> 0 | "ex" | "exv" -> 1 | _ -> 2) in
    (match callable_adapter_mode (cstr cid) m with
     | None -> L [A "handwritten"]
     | Some s ->
       let pool = List.map aval_of pool in
       let tuples = List.map (function L t -> List.map (function A i -> z_of_string i | _ -> failwith "c19") t | _ -> failwith "c19") tuples in
       L (A "ok" :: List.map tok_of_res (run_tuples s pool (mode = "exv") tuples)))
  | "size19", [A "repeat"; A k; A len; A count] ->
    let k = (match k with "a" -> RArray | "s" -> RString | _ -> RBytes) in
    size_res (repeat_model k (z_of_string len) (z_of_string count))
  | "size19", [A "mkarr"; A n; A l] ->
    let l = z_of_string l in
    size_res (make_array_model (z_of_string n) (if int_of_z l < 0 then None else Some l))
  | "size19", [A "srepeat"; A len; A count] -> size_res (strings_repeat_model (z_of_string len) (z_of_string count))
  | "size19", [A "pad"; A _; A ls; A padlen; A lp; A haspad] ->
    size_res (pad_model (z_of_string ls) (z_of_string padlen) (z_of_string lp) (haspad = "1"))
  | _ -> failwith "c19: bad case"
