open Ugomodel
type string = Stdlib.String.t
open Sexp
open Codec

let run (kind : string) (args : Sexp.t list) : Sexp.t =
  match kind, args with
  | "wffn", [A ins; A nconst; A nlocals; A nmods; L (A "cf" :: cfs)] ->
    let ctx = { num_constants = z_of_string nconst; num_locals = z_of_string nlocals; num_modules = z_of_string nmods;
                cfun_constants = List.map (function L [A i; A need] -> (z_of_string i, z_of_string need) | _ -> failwith "cf") cfs } in
    L [A "b"; A (if wf_function ctx (C11.zlist_of_atom ins) then "1" else "0")]
  | _ -> failwith "c05: bad case"
