(* Extraction of the executable model.  ExtrOcamlBasic only: Z, N, positive,
   byte and spec_float stay extracted inductives. *)
From Coq Require Import ExtrOcamlBasic.
From Coq Require Import List ZArith Strings.Byte Floats.SpecFloat.
From Ugo Require Import Base.Res Base.GoInt Base.GoFloat Value.PValue Value.Ops Conv.GoValue Skel.Skel Skel.SkelDecl Byte.Instr Byte.V1Conv Codec.Varint Codec.Obj Comp.SymTab Comp.Fold Comp.FoldExpr Byte.Wf VM.CallBinding Comp.ModStore Comp.ImportPath Pos.LineTable Json.Json Builtin.Adapter Builtin.SizeGuard Share.Share Share.ShareCheck Abort.Abort Abort.AbortDrive Sem.Sem ExprComp.ExprComp ExprComp.StmtComp.
Definition byte_to_N := Byte.to_N.
Definition byte_of_N := Byte.of_N.
Extraction "ugomodel.ml"
  byte_to_N byte_of_N Z.of_N Z.to_N Z.add Z.mul Z.div_eucl Z.opp Z.ltb Z.eqb Z.pow
  f64_of_bits bits_of_f64 f32_of_bits
  to_object to_object_alt to_interface
  binop vm_equal vm_not_equal unop
  run_program sem_program
  conv_comp_func reloc_ok
  encode decode
  run_ops new_symbol_table
  fold_binop fold_unop is_literal_falsy
  wf_function
  call_compiled init_locals
  loads_ok
  unpack shift_lines file_of add_lines source_pos
  json_valid encode_string
  callable_adapter_mode run_tuples repeat_model make_array_model strings_repeat_model pad_model err_negative err_too_large
  share_check
  run_scenario
  sem_run_program
  xcompile xceval xmrun xcsize xisize
  scompile sexec ssize wf
  dcompile_program wf_program
  fi_name fi_fork
  fold_ok const_error fold_inconclusive.
