open Ugomodel
type string = Stdlib.String.t
open Sexp
open Codec

let tok_of_atom = function
  | "add" -> TAdd | "sub" -> TSub | "mul" -> TMul | "quo" -> TQuo | "rem" -> TRem
  | "and" -> TAnd | "or" -> TOr | "xor" -> TXor | "andnot" -> TAndNot | "shl" -> TShl | "shr" -> TShr
  | "lt" -> TLess | "le" -> TLessEq | "gt" -> TGreater | "ge" -> TGreaterEq | "not" -> TNot
  | _ -> TOther

let run (kind : string) (args : Sexp.t list) : Sexp.t =
  match kind, args with
  | ("binop" | "vmbinop"), [A t; a; b] -> sexp_of_res sexp_of_value (binop (tok_of_atom t) (value_of_sexp a) (value_of_sexp b))
  | ("equal" | "vmequal"), [a; b] -> sexp_of_value (vm_equal (value_of_sexp a) (value_of_sexp b))
  | ("nequal" | "vmnequal"), [a; b] -> sexp_of_value (vm_not_equal (value_of_sexp a) (value_of_sexp b))
  | ("unop" | "vmunop"), [A t; a] -> sexp_of_res sexp_of_value (unop (tok_of_atom t) (value_of_sexp a))
  | _ -> failwith ("c15: bad case " ^ kind)
