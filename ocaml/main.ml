(* ugom: reads one case per line "(case <id> <kind> args...)", prints "<id> <result>" *)
open Sexp

let dispatch kind args =
  match kind with
  | "toobj" | "toobjalt" | "toiface" | "rtobj" | "rtobjalt" | "rtgo" -> C20.run kind args
  | "binop" | "vmbinop" | "equal" | "vmequal" | "nequal" | "vmnequal" | "unop" | "vmunop" -> C15.run kind args
  | "skelvm" | "skelsem" -> C03.run kind args
  | "v1conv" | "v1reloc" -> C11.run kind args
  | "enc" | "dec" -> C04.run kind args
  | "symtab" | "loadsok" | "finame" -> C13.run kind args
  | "foldbin" | "foldun" | "litfalsy" | "optexpr" -> C01.run kind args
  | "wffn" -> C05.run kind args
  | "callbind" -> C14.run kind args
  | "unpack" | "shiftlines" | "fileof" | "addlines" | "sourcepos" -> C16.run kind args
  | "jsonvalid" | "jsonstr" -> C17.run kind args
  | "calls19" | "size19" -> C19.run kind args
  | "shareok" -> C08.run kind args
  | "abort09" -> C09.run kind args
  | "sem02" | "exprcomp" | "stmtcomp" -> C02.run kind args
  | _ -> failwith ("unknown kind " ^ kind)

let () =
  try
    while true do
      let line = input_line stdin in
      if String.length line > 0 && line.[0] = '(' then begin
        match Sexp.parse line with
        | L (A "case" :: A id :: A kind :: args) ->
          let r = (try Sexp.to_string (dispatch kind args) with
              | Failure m -> "(model-failure " ^ String.concat "_" (String.split_on_char ' ' m) ^ ")"
              | Stack_overflow -> "(model-failure stack-overflow)"
              | Not_found -> "(model-failure not-found)") in
          print_string id; print_char ' '; print_string r; print_newline ()
        | _ -> prerr_endline ("bad case line: " ^ line)
      end
    done
  with End_of_file -> ()
