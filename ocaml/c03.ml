open Ugomodel
type string = Stdlib.String.t
open Sexp
open Codec

let rec nat_of_int i = if i <= 0 then O else S (nat_of_int (i - 1))

let rec skel_of_sexp (s : Sexp.t) : skel =
  match s with
  | L [A "log"; A a] -> SLog (z_of_string a)
  | L [A "break"] -> SBreak
  | L [A "continue"] -> SContinue
  | L [A "ret"; A a] -> SReturn (z_of_string a)
  | L [A "throw"; A a] -> SThrow (z_of_string a)
  | L [A "fail"] -> SFail
  | L [A "call"; A f] -> SCall (nat_of_int (int_of_string f))
  | L (A "loop" :: body) -> SLoop (List.map skel_of_sexp body)
  | L [A "try"; L (A "body" :: body); c; f] ->
    let c' = (match c with
        | L [A "nocatch"] -> None
        | L (A "catch" :: A named :: cb) -> Some ((named = "1"), List.map skel_of_sexp cb)
        | _ -> failwith "bad catch") in
    let f' = (match f with
        | L [A "nofin"] -> None
        | L (A "fin" :: fb) -> Some (List.map skel_of_sexp fb)
        | _ -> failwith "bad fin") in
    STry (List.map skel_of_sexp body, c', f')
  | _ -> failwith ("bad skel: " ^ Sexp.to_string s)

let sexp_of_event = function
  | ELog a -> L [A "l"; A (string_of_z a)]
  | ECaught e -> L [A "c"; A (string_of_z e)]
  | ERet None -> L [A "r"; A "u"]
  | ERet (Some a) -> L [A "r"; A (string_of_z a)]

let sexp_of_outcome = function
  | ONormal -> L [A "normal"]
  | OBreak -> L [A "break"]
  | OContinue -> L [A "continue"]
  | OReturn a -> L [A "return"; A (string_of_z a)]
  | OThrow e -> L [A "throw"; A (string_of_z e)]

let run (kind : string) (args : Sexp.t list) : Sexp.t =
  let prog = List.map (function L (A "fn" :: body) -> List.map skel_of_sexp body | _ -> failwith "bad fn") args in
  match kind with
  | "skelvm" ->
    (* the emit-and-patch compiler and the declarative compiler of the simulation theorem must agree *)
    let wf = wf_program prog in
    (match compile_program prog with
     | Some code when wf && code <> dcompile_program prog -> L [A "compilers-differ"]
     | None when wf -> L [A "compilers-differ"; A "compile-error-on-well-formed-program"]
     | Some _ when not wf -> L [A "compilers-differ"; A "ill-formed-program-compiles"]
     | _ ->
    match run_program (nat_of_int 20000) prog with
     | None -> L [A "compile-error"]
     | Some (Done (l, o)) -> L [sexp_of_outcome o; L (A "log" :: List.map sexp_of_event l)]
     | Some (Stuck n) -> L [A "stuck"]
     | Some (Running _) -> L [A "running"])
  | "skelsem" ->
    (match sem_program prog with
     | None -> L [A "empty"]
     | Some (l, o) -> L [sexp_of_outcome o; L (A "log" :: List.map sexp_of_event l)])
  | _ -> failwith "c03: bad kind"
