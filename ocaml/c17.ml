open Ugomodel
type string = Stdlib.String.t
open Sexp
open Codec

let run (kind : string) (args : Sexp.t list) : Sexp.t =
  match kind, args with
  | "jsonvalid", [A h] -> L [A "b"; A (if json_valid (C11.zlist_of_atom h) then "1" else "0")]
  | "jsonstr", [A html; A h] -> A (C11.atom_of_zlist (encode_string (C11.zlist_of_atom h) (html = "1")))
  | _ -> failwith "c17: bad case"
