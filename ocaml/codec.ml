(* conversions between s-expressions and the extracted model's data types *)
open Ugomodel
type string = Stdlib.String.t
open Sexp

let rec pos_of_int (i : int) : positive =
  if i = 1 then XH else if i land 1 = 0 then XO (pos_of_int (i lsr 1)) else XI (pos_of_int (i lsr 1))
let z_of_int (i : int) : z = if i = 0 then Z0 else if i > 0 then Zpos (pos_of_int i) else Zneg (pos_of_int (-i))
let n_of_int (i : int) : n = if i = 0 then N0 else Npos (pos_of_int i)
let rec int_of_pos = function XH -> 1 | XO p -> 2 * int_of_pos p | XI p -> 2 * int_of_pos p + 1
let int_of_n = function N0 -> 0 | Npos p -> int_of_pos p
let int_of_z = function Z0 -> 0 | Zpos p -> int_of_pos p | Zneg p -> - (int_of_pos p)

let z10 = z_of_int 10
let z16 = z_of_int 16

let z_of_string (s : string) : z =
  let neg, st = if String.length s > 0 && s.[0] = '-' then true, 1 else false, 0 in
  let acc = ref Z0 in
  for i = st to String.length s - 1 do
    let c = s.[i] in
    if c < '0' || c > '9' then failwith ("bad int: " ^ s);
    acc := Z.add (Z.mul !acc z10) (z_of_int (Char.code c - 48))
  done;
  if neg then Z.opp !acc else !acc

let string_of_z (z : z) : string =
  match z with
  | Z0 -> "0"
  | _ ->
    let neg, a = (match z with Zneg p -> true, Zpos p | _ -> false, z) in
    let b = Buffer.create 20 in
    let rec loop a acc = match a with
      | Z0 -> acc
      | _ -> let (q, r) = Z.div_eucl a z10 in loop q (Char.chr (48 + int_of_z r) :: acc) in
    let digits = loop a [] in
    if neg then Buffer.add_char b '-';
    List.iter (Buffer.add_char b) digits; Buffer.contents b

let hexval c = match c with
  | '0'..'9' -> Char.code c - 48 | 'a'..'f' -> Char.code c - 87 | 'A'..'F' -> Char.code c - 55
  | _ -> failwith "bad hex"

let z_of_hex (s : string) : z =
  let acc = ref Z0 in
  String.iter (fun c -> acc := Z.add (Z.mul !acc z16) (z_of_int (hexval c))) s; !acc

let hex_of_z_width (z : z) (w : int) : string =
  let b = Bytes.make w '0' in
  let rec loop a i = if i < 0 then () else
      match a with Z0 -> () | _ ->
        let (q, r) = Z.div_eucl a z16 in
        Bytes.set b i "0123456789abcdef".[int_of_z r]; loop q (i - 1) in
  loop z (w - 1); Bytes.to_string b

let byte_table : byte array = Array.init 256 (fun i -> match byte_of_N (n_of_int i) with Some b -> b | None -> failwith "byte")
let byte_of_int i = byte_table.(i)
let int_of_byte (b : byte) : int = int_of_n (byte_to_N b)

(* byte strings travel as "x" ^ lowercase hex *)
let bstr_of_atom (a : string) : byte list =
  if String.length a = 0 || a.[0] <> 'x' then failwith ("bad bstr atom: " ^ a);
  let n = (String.length a - 1) / 2 in
  List.init n (fun i -> byte_of_int (hexval a.[1 + 2*i] * 16 + hexval a.[2 + 2*i]))
let atom_of_bstr (l : byte list) : string =
  let b = Buffer.create 16 in Buffer.add_char b 'x';
  List.iter (fun x -> Buffer.add_string b (Printf.sprintf "%02x" (int_of_byte x))) l; Buffer.contents b

let bstr_of_string (s : string) : byte list = List.init (String.length s) (fun i -> byte_of_int (Char.code s.[i]))
let string_of_bstr (l : byte list) : string = String.concat "" (List.map (fun b -> String.make 1 (Char.chr (int_of_byte b))) l)

let float_of_atom (a : string) : spec_float = f64_of_bits (z_of_hex a)
let atom_of_float (f : spec_float) : string = hex_of_z_width (bits_of_f64 f) 16

let rec value_of_sexp (s : Sexp.t) : pvalue =
  match s with
  | L [A "n"] -> PUndef
  | L [A "b"; A "0"] -> PBool false
  | L [A "b"; A "1"] -> PBool true
  | L [A "i"; A d] -> PInt (z_of_string d)
  | L [A "u"; A d] -> PUint (z_of_string d)
  | L [A "f"; A h] -> PFloat (float_of_atom h)
  | L [A "c"; A d] -> PChar (z_of_string d)
  | L [A "s"; A h] -> PStr (bstr_of_atom h)
  | L [A "y"; A h] -> PBytes (bstr_of_atom h)
  | L (A "a" :: l) -> PArr (List.map value_of_sexp l)
  | L (A "m" :: l) -> PMap (List.map kv_of_sexp l)
  | L (A "sm" :: l) -> PSyncMap (List.map kv_of_sexp l)
  | L [A "e"; A i; A n; A m] -> PErr (z_of_string i, bstr_of_atom n, bstr_of_atom m)
  | L [A "re"; A i; A e; A n; A m] -> PRtErr (z_of_string i, z_of_string e, bstr_of_atom n, bstr_of_atom m)
  | L [A "fn"; A i] -> PFn (bstr_of_atom i)
  | L [A "o"; A t; A p] -> POpaque (bstr_of_atom t, bstr_of_atom p)
  | _ -> failwith ("bad value: " ^ Sexp.to_string s)
and kv_of_sexp = function
  | L [A k; v] -> (bstr_of_atom k, value_of_sexp v)
  | s -> failwith ("bad kv: " ^ Sexp.to_string s)

let sort_kv l = List.sort (fun (a, _) (b, _) -> compare a b) l

let rec sexp_of_value (v : pvalue) : Sexp.t =
  match v with
  | PUndef -> L [A "n"]
  | PBool b -> L [A "b"; A (if b then "1" else "0")]
  | PInt z -> L [A "i"; A (string_of_z z)]
  | PUint z -> L [A "u"; A (string_of_z z)]
  | PFloat f -> L [A "f"; A (atom_of_float f)]
  | PChar z -> L [A "c"; A (string_of_z z)]
  | PStr s -> L [A "s"; A (atom_of_bstr s)]
  | PBytes s -> L [A "y"; A (atom_of_bstr s)]
  | PArr l -> L (A "a" :: List.map sexp_of_value l)
  | PMap m -> L (A "m" :: sexp_of_kvs m)
  | PSyncMap m -> L (A "sm" :: sexp_of_kvs m)
  | PErr (i, n, m) -> L [A "e"; A (string_of_z i); A (atom_of_bstr n); A (atom_of_bstr m)]
  | PRtErr (i, e, n, m) -> L [A "re"; A (string_of_z i); A (string_of_z e); A (atom_of_bstr n); A (atom_of_bstr m)]
  | PFn i -> L [A "fn"; A (atom_of_bstr i)]
  | POpaque (t, p) -> L [A "o"; A (atom_of_bstr t); A (atom_of_bstr p)]
and sexp_of_kvs m =
  let l = List.map (fun (k, v) -> (atom_of_bstr k, sexp_of_value v)) m in
  List.map (fun (k, v) -> L [A k; v]) (sort_kv l)

let sexp_of_res (f : 'a -> Sexp.t) (r : 'a res) : Sexp.t =
  match r with
  | Ok a -> L [A "ok"; f a]
  | Err e -> L [A "err"; A (atom_of_bstr e.err_name); A (atom_of_bstr e.err_msg)]
  | GoPanic _ -> L [A "panic"]
  | OutOfFuel -> L [A "fuel"]
