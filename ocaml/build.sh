#!/bin/sh
# builds /verif/ocaml/ugom from the extracted model; run after the Coq build
set -e
cd /verif/ocaml
coqc -Q /verif/coq/theories Ugo Extract.v >/dev/null
ocamlfind ocamlopt -O2 -w -a -package str ugomodel.mli ugomodel.ml sexp.ml codec.ml c20.ml c15.ml c03.ml c11.ml c04.ml c13.ml c01.ml c05.ml c14.ml c16.ml c17.ml c19.ml c08.ml c09.ml c02.ml main.ml -o ugom 2>/dev/null || \
ocamlfind ocamlopt -w -a ugomodel.mli ugomodel.ml sexp.ml codec.ml c20.ml c15.ml c03.ml c11.ml c04.ml c13.ml c01.ml c05.ml c14.ml c16.ml c17.ml c19.ml c08.ml c09.ml c02.ml main.ml -o ugom
