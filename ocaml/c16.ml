open Ugomodel
type string = Stdlib.String.t
open Sexp
open Codec

let int_of_nat n = let rec go n acc = match n with O -> acc | S m -> go m (acc + 1) in go n 0

let run (kind : string) (args : Sexp.t list) : Sexp.t =
  match kind, args with
  | "unpack", [L (A "lines" :: ls); A off] ->
    let lines = List.map (function A l -> z_of_string l | _ -> failwith "line") ls in
    let (l, c) = unpack lines (z_of_string off) in
    L [A (string_of_z l); A (string_of_z c)]
  | "shiftlines", [A k; L (A "lines" :: ls)] ->
    let lines = List.map (function A l -> z_of_string l | _ -> failwith "line") ls in
    L (A "lines" :: List.map (fun z -> A (string_of_z z)) (shift_lines (C03.nat_of_int (int_of_string k)) lines))
  | "addlines", [A size; L (A "offs" :: os)] ->
    let offs = List.map (function A o -> z_of_string o | _ -> failwith "off") os in
    L (A "lines" :: List.map (fun z -> A (string_of_z z)) (add_lines (z_of_string size) offs))
  | "sourcepos", [L (A "pairs" :: ps); L (A "ips" :: qs)] ->
    let m = List.map (function L [A k; A v] -> (z_of_string k, z_of_string v) | _ -> failwith "pair") ps in
    L (List.map (function A q -> A (string_of_z (source_pos m (z_of_string q))) | _ -> failwith "ip") qs)
  | "fileof", [L (A "files" :: fs); A p] ->
    let files = List.map (function L [A b; A s] -> (z_of_string b, z_of_string s) | _ -> failwith "file") fs in
    (match file_of files (z_of_string p) with
     | None -> A "-1"
     | Some k -> A (string_of_int (int_of_nat k)))
  | _ -> failwith "c16: bad case"
