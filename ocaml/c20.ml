open Ugomodel
type string = Stdlib.String.t
open Sexp
open Codec

let rec goval_of_sexp (s : Sexp.t) : goval =
  match s with
  | L [A "nil"] -> GNil
  | L [A "str"; A h] -> GString (bstr_of_atom h)
  | L [A "i64"; A d] -> GInt64 (z_of_string d)
  | L [A "int"; A d] -> GInt (z_of_string d)
  | L [A "uint"; A d] -> GUint (z_of_string d)
  | L [A "u64"; A d] -> GUint64 (z_of_string d)
  | L [A "uptr"; A d] -> GUintptr (z_of_string d)
  | L [A "bool"; A d] -> GBool (d = "1")
  | L [A "i32"; A d] -> GInt32 (z_of_string d)
  | L [A "u8"; A d] -> GUint8 (z_of_string d)
  | L [A "f64"; A h] -> GFloat64 (float_of_atom h)
  | L [A "f32"; A h] -> GFloat32 (f32_of_bits (z_of_hex h))
  | L [A "i8"; A d] -> GInt8 (z_of_string d)
  | L [A "i16"; A d] -> GInt16 (z_of_string d)
  | L [A "u16"; A d] -> GUint16 (z_of_string d)
  | L [A "u32"; A d] -> GUint32 (z_of_string d)
  | L [A "bytes"; A "nil"] -> GBytes None
  | L [A "bytes"; A h] -> GBytes (Some (bstr_of_atom h))
  | L [A "slice"; A "nil"] -> GSliceAny (true, [])
  | L (A "slice" :: l) -> GSliceAny (false, List.map goval_of_sexp l)
  | L [A "map"; A "nil"] -> GMapAny (true, [])
  | L (A "map" :: l) -> GMapAny (false, List.map (function L [A k; v] -> (bstr_of_atom k, goval_of_sexp v) | _ -> failwith "bad gmap") l)
  | L [A "oslice"; A "nil"] -> GSliceObj None
  | L (A "oslice" :: l) -> GSliceObj (Some (List.map value_of_sexp l))
  | L [A "omap"; A "nil"] -> GMapObj None
  | L (A "omap" :: l) -> GMapObj (Some (List.map kv_of_sexp l))
  | L [A "obj"; v] -> GObject (value_of_sexp v)
  | L [A "func"; A d] -> GFunc (d = "1")
  | L [A "err"; A h] -> GError (bstr_of_atom h)
  | L [A "dur"; A d] -> GDuration (z_of_string d)
  | L [A "reg"; A t; A "nil"] -> GReg (bstr_of_atom t, None)
  | L [A "reg"; A t; A p] -> GReg (bstr_of_atom t, Some (bstr_of_atom p))
  | L [A "other"; A t] -> GOther (bstr_of_atom t)
  | _ -> failwith ("bad goval: " ^ Sexp.to_string s)

(* printed form identifies nil and empty containers; map keys sorted *)
let rec sexp_of_goval (g : goval) : Sexp.t =
  match g with
  | GNil -> L [A "nil"]
  | GString s -> L [A "str"; A (atom_of_bstr s)]
  | GInt64 z -> L [A "i64"; A (string_of_z z)]
  | GInt z -> L [A "int"; A (string_of_z z)]
  | GUint z -> L [A "uint"; A (string_of_z z)]
  | GUint64 z -> L [A "u64"; A (string_of_z z)]
  | GUintptr z -> L [A "uptr"; A (string_of_z z)]
  | GBool b -> L [A "bool"; A (if b then "1" else "0")]
  | GInt32 z -> L [A "i32"; A (string_of_z z)]
  | GUint8 z -> L [A "u8"; A (string_of_z z)]
  | GFloat64 f -> L [A "f64"; A (atom_of_float f)]
  | GFloat32 _ -> L [A "f32"]
  | GInt8 z -> L [A "i8"; A (string_of_z z)]
  | GInt16 z -> L [A "i16"; A (string_of_z z)]
  | GUint16 z -> L [A "u16"; A (string_of_z z)]
  | GUint32 z -> L [A "u32"; A (string_of_z z)]
  | GBytes o -> L [A "bytes"; A (atom_of_bstr (match o with Some l -> l | None -> []))]
  | GSliceAny (_, l) -> L (A "slice" :: List.map sexp_of_goval l)
  | GMapAny (_, l) ->
    let l = List.map (fun (k, v) -> (atom_of_bstr k, sexp_of_goval v)) l in
    L (A "map" :: List.map (fun (k, v) -> L [A k; v]) (sort_kv l))
  | GSliceObj o -> L (A "oslice" :: List.map sexp_of_value (match o with Some l -> l | None -> []))
  | GMapObj o -> L (A "omap" :: sexp_of_kvs (match o with Some l -> l | None -> []))
  | GObject v -> L [A "obj"; sexp_of_value v]
  | GFunc b -> L [A "func"; A (if b then "1" else "0")]
  | GError m -> L [A "err"; A (atom_of_bstr m)]
  | GDuration z -> L [A "dur"; A (string_of_z z)]
  | GReg (t, p) -> L [A "reg"; A (atom_of_bstr t); A (match p with Some p -> atom_of_bstr p | None -> "nil")]
  | GOther t -> L [A "other"; A (atom_of_bstr t)]

let run (kind : string) (args : Sexp.t list) : Sexp.t =
  match kind, args with
  | "toobj", [g] -> sexp_of_res sexp_of_value (to_object (goval_of_sexp g))
  | "toobjalt", [g] -> sexp_of_res sexp_of_value (to_object_alt (goval_of_sexp g))
  | "toiface", [v] -> sexp_of_goval (to_interface (value_of_sexp v))
  | "rtobj", [v] -> sexp_of_res sexp_of_value (to_object (to_interface (value_of_sexp v)))
  | "rtobjalt", [v] -> sexp_of_res sexp_of_value (to_object_alt (to_interface (value_of_sexp v)))
  | "rtgo", [g] ->
    (match to_object (goval_of_sexp g) with
     | Ok v -> L [A "ok"; sexp_of_goval (to_interface v)]
     | r -> sexp_of_res sexp_of_value r)
  | _ -> failwith ("c20: bad case " ^ kind)
