open Ugomodel
type string = Stdlib.String.t
open Sexp
open Codec

let kind_of = function "imm" -> CkImm | "fn" -> CkFn | "copier" -> CkCopier | _ -> CkMut

let run (kind : string) (args : Sexp.t list) : Sexp.t =
  match kind, args with
  | "shareok", (L (A "consts" :: ks) :: fns) ->
    let consts = List.map (function A k -> kind_of k | _ -> failwith "c08") ks in
    let fns = List.map (function
        | L (A "fn" :: ins) ->
          List.map (function
              | L (A pos :: A name :: A size :: ops) ->
                ((z_of_string pos, C13.cstr name), (z_of_string size, List.map (function A o -> z_of_string o | _ -> failwith "c08") ops))
              | _ -> failwith "c08") ins
        | _ -> failwith "c08") fns in
    L [A (if share_check consts fns then "ok" else "bad")]
  | _ -> failwith "c08: bad case"
