open Ugomodel
type string = Stdlib.String.t
open Sexp
open Codec

let run (kind : string) (args : Sexp.t list) : Sexp.t =
  match kind, args with
  | "abort09", [A ver; A scen; A p1; A occ; A p2] ->
    let v = if ver = "orig" then VOrig else VFixed in
    let p2 = if p2 = "-" then "" else p2 in
    let (o, trace) = run_scenario v (C13.cstr scen) (C13.cstr p1) (C03.nat_of_int (int_of_string occ)) (C13.cstr p2) in
    let o = (match o with DAborted -> "aborted" | DReturned -> "returned" | DHang -> "hang" | DUnreached -> "unreached") in
    L [A "outcome"; A o; L (A "trace" :: List.map (fun t -> A (C13.ocaml_string_of t)) trace)]
  | _ -> failwith "c09: bad case"
