package main

import (
	"fmt"
	"math"
	"strconv"
	"strings"

	"github.com/ozanh/ugo"
	"github.com/ozanh/ugo/token"
)

var tokByName = map[string]token.Token{
	"add": token.Add, "sub": token.Sub, "mul": token.Mul, "quo": token.Quo, "rem": token.Rem,
	"and": token.And, "or": token.Or, "xor": token.Xor, "andnot": token.AndNot, "shl": token.Shl, "shr": token.Shr,
	"lt": token.Less, "le": token.LessEq, "gt": token.Greater, "ge": token.GreaterEq, "not": token.Not,
}

var scriptCache = map[string]*ugo.Bytecode{}

func compiled(src string) *ugo.Bytecode {
	if bc, ok := scriptCache[src]; ok {
		return bc
	}
	bc, err := ugo.Compile([]byte(src), ugo.CompilerOptions{})
	if err != nil {
		panic(fmt.Sprintf("compile %q: %v", src, err))
	}
	scriptCache[src] = bc
	return bc
}

func resultSexp(v ugo.Object, err error) *Sexp {
	if err != nil {
		return errSexp(err)
	}
	return L(A("ok"), SexpOfValue(v))
}

func runC15(kind string, args []*Sexp) *Sexp {
	switch kind {
	case "binop":
		tok := tokByName[args[0].Atom]
		a, b := ValueOfSexp(args[1]), ValueOfSexp(args[2])
		v, err := a.BinaryOp(tok, b)
		if err == ugo.ErrInvalidOperator { // the VM's rewrite in OpBinaryOp
			err = ugo.ErrInvalidOperator.NewError(tok.String())
		}
		return resultSexp(v, err)
	case "vmbinop":
		tok := tokByName[args[0].Atom]
		a, b := ValueOfSexp(args[1]), ValueOfSexp(args[2])
		bc := compiled("param (a, b); return a " + tok.String() + " b")
		return resultSexp(ugo.NewVM(bc).Run(nil, a, b))
	case "purity":
		// a result must not change when its operand is used again: b := a + p; c := a + q; b is still a + p
		run := func(src string) *Sexp {
			bc := compiled(src)
			return resultSexp(ugo.NewVM(bc).Run(nil, ValueOfSexp(args[0]), ValueOfSexp(args[1]), ValueOfSexp(args[2])))
		}
		r1 := run("param (a, p, q); a = a + p; b := a + p; return b")
		r2 := run("param (a, p, q); a = a + p; b := a + p; try { c := a + q; d := c + p } catch { }; return b")
		return L(A("purity"), r1, r2)
	case "litbinop":
		// the same operation written with literal operands, compiled with the default options (optimizer on)
		la, oka := literalOf(ValueOfSexp(args[1]))
		lb, okb := literalOf(ValueOfSexp(args[2]))
		if !oka || !okb {
			return L(A("noliteral"))
		}
		op := args[0].Atom
		if t, ok := tokByName[op]; ok {
			op = t.String()
		}
		bc, err, pan := compileSrc([]byte("return "+la+" "+op+" "+lb), ugo.CompilerOptions{})
		if pan != nil {
			return L(A("panic"), A(sanitize(fmt.Sprint(pan))))
		}
		if err != nil {
			// a constant expression that fails is refused with the error it raises
			msg := firstLine(err.Error())
			for _, n := range []string{"ZeroDivisionError", "TypeError", "InvalidOperatorError"} {
				if strings.Contains(msg, n) {
					return L(A("err"), hexAtom([]byte(n)))
				}
			}
			return L(A("compile-error"), A(sanitize(msg)))
		}
		r := resultSexp(ugo.NewVM(bc).Run(nil))
		if r.Head() == "err" {
			return L(A("err"), r.List[1])
		}
		return r
	case "equal":
		return SexpOfValue(ugo.Bool(ValueOfSexp(args[0]).Equal(ValueOfSexp(args[1]))))
	case "nequal":
		return SexpOfValue(ugo.Bool(!ValueOfSexp(args[0]).Equal(ValueOfSexp(args[1]))))
	case "vmequal", "vmnequal":
		op := "=="
		if kind == "vmnequal" {
			op = "!="
		}
		bc := compiled("param (a, b); return a " + op + " b")
		v, err := ugo.NewVM(bc).Run(nil, ValueOfSexp(args[0]), ValueOfSexp(args[1]))
		if err != nil {
			return errSexp(err)
		}
		return SexpOfValue(v)
	case "vmunop", "unop":
		tok := tokByName[args[0].Atom]
		bc := compiled("param a; return " + tok.String() + "a")
		return resultSexp(ugo.NewVM(bc).Run(nil, ValueOfSexp(args[1])))
	}
	panic("c15: bad kind")
}

// literalOf renders a scalar value as source text, when the language has a literal for it
func literalOf(o ugo.Object) (string, bool) {
	switch v := o.(type) {
	case ugo.Int:
		if v < 0 {
			if v == math.MinInt64 {
				return "", false
			}
			return "(" + strconv.FormatInt(int64(v), 10) + ")", true
		}
		return strconv.FormatInt(int64(v), 10), true
	case ugo.Uint:
		return strconv.FormatUint(uint64(v), 10) + "u", true
	case ugo.Float:
		f := float64(v)
		if math.IsNaN(f) || math.IsInf(f, 0) {
			return "", false
		}
		s := strconv.FormatFloat(f, 'g', -1, 64)
		if !strings.ContainsAny(s, ".e") {
			s += ".0"
		}
		if f < 0 || math.Signbit(f) {
			s = "(" + s + ")"
		}
		return s, true
	case ugo.Char:
		if v >= 32 && v < 127 && v != '\'' && v != '\\' {
			return "'" + string(rune(v)) + "'", true
		}
		return "", false
	case ugo.Bool:
		if v {
			return "true", true
		}
		return "false", true
	case ugo.String:
		return strconv.Quote(string(v)), true
	case *ugo.UndefinedType:
		return "undefined", true
	}
	return "", false
}
