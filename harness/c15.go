package main

import (
	"fmt"

	"github.com/ozanh/ugo"
	"github.com/ozanh/ugo/token"
)

var tokByName = map[string]token.Token{
	"add": token.Add, "sub": token.Sub, "mul": token.Mul, "quo": token.Quo, "rem": token.Rem,
	"and": token.And, "or": token.Or, "xor": token.Xor, "andnot": token.AndNot, "shl": token.Shl, "shr": token.Shr,
	"lt": token.Less, "le": token.LessEq, "gt": token.Greater, "ge": token.GreaterEq, "not": token.Not,
}

var scriptCache = map[string]*ugo.Bytecode{}

func compiled(src string) *ugo.Bytecode {
	if bc, ok := scriptCache[src]; ok {
		return bc
	}
	bc, err := ugo.Compile([]byte(src), ugo.CompilerOptions{})
	if err != nil {
		panic(fmt.Sprintf("compile %q: %v", src, err))
	}
	scriptCache[src] = bc
	return bc
}

func resultSexp(v ugo.Object, err error) *Sexp {
	if err != nil {
		return errSexp(err)
	}
	return L(A("ok"), SexpOfValue(v))
}

func runC15(kind string, args []*Sexp) *Sexp {
	switch kind {
	case "binop":
		tok := tokByName[args[0].Atom]
		a, b := ValueOfSexp(args[1]), ValueOfSexp(args[2])
		v, err := a.BinaryOp(tok, b)
		if err == ugo.ErrInvalidOperator { // the VM's rewrite in OpBinaryOp
			err = ugo.ErrInvalidOperator.NewError(tok.String())
		}
		return resultSexp(v, err)
	case "vmbinop":
		tok := tokByName[args[0].Atom]
		a, b := ValueOfSexp(args[1]), ValueOfSexp(args[2])
		bc := compiled("param (a, b); return a " + tok.String() + " b")
		return resultSexp(ugo.NewVM(bc).Run(nil, a, b))
	case "equal":
		return SexpOfValue(ugo.Bool(ValueOfSexp(args[0]).Equal(ValueOfSexp(args[1]))))
	case "nequal":
		return SexpOfValue(ugo.Bool(!ValueOfSexp(args[0]).Equal(ValueOfSexp(args[1]))))
	case "vmequal", "vmnequal":
		op := "=="
		if kind == "vmnequal" {
			op = "!="
		}
		bc := compiled("param (a, b); return a " + op + " b")
		v, err := ugo.NewVM(bc).Run(nil, ValueOfSexp(args[0]), ValueOfSexp(args[1]))
		if err != nil {
			return errSexp(err)
		}
		return SexpOfValue(v)
	case "vmunop", "unop":
		tok := tokByName[args[0].Atom]
		bc := compiled("param a; return " + tok.String() + "a")
		return resultSexp(ugo.NewVM(bc).Run(nil, ValueOfSexp(args[1])))
	}
	panic("c15: bad kind")
}
