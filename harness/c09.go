package main

import (
	"context"
	"fmt"
	"sync"
	"time"

	"github.com/ozanh/ugo"
	ustrings "github.com/ozanh/ugo/stdlib/strings"
)

// ---- C09: forced interleavings of Abort / context cancellation with Run, Invoke and child VMs ----
//
// The running goroutine is stopped at a named point (hooks of build tag verif in vm.go, or a call of
// the global function sync from the script); there the aborting goroutine performs Abort - entirely,
// or up to its middle, the rest at a later point of the running goroutine.

type abortCtl struct {
	mu       sync.Mutex
	p1, p2   string // runner points: start of Abort, completion of Abort ("" = complete at p1)
	occ1     int    // which occurrence of p1
	seen     map[string]int
	started  bool
	finished bool
	startCh  chan struct{} // runner -> aborter: call Abort now
	midCh    chan struct{} // aborter reached abort.mid
	contCh   chan struct{} // runner -> aborter: complete Abort
	doneCh   chan struct{} // aborter: Abort returned
	trace    []string
	eval     bool // eval scenario: p1 cancels the context instead
	cancel   context.CancelFunc
	root     *ugo.VM
	aborting bool
	free     time.Duration // >0: do not block the runner, abort after this delay
}

var abortCtlCur *abortCtl

func (c *abortCtl) key(point string, vm *ugo.VM) string {
	if vm != nil && vm.VerifIsChild() {
		return point + ".child"
	}
	return point + ".root"
}

func (c *abortCtl) hook(point string, vm *ugo.VM) {
	if len(point) > 6 && point[:6] == "abort." {
		// aborting goroutine
		c.mu.Lock()
		mine := c.aborting && vm == c.root
		split := c.p2 != ""
		c.mu.Unlock()
		if !mine {
			return
		}
		switch point {
		case "abort.mid":
			if split {
				c.mu.Lock()
				first := !c.finished && c.midCh != nil
				c.mu.Unlock()
				if first {
					close(c.midCh)
					<-c.contCh
				}
			}
		case "abort.exit":
			c.mu.Lock()
			if !c.finished {
				c.finished = true
				close(c.doneCh)
			}
			c.mu.Unlock()
		}
		return
	}
	k := c.key(point, vm)
	c.mu.Lock()
	c.seen[k]++
	n := c.seen[k]
	if len(c.trace) < 64 {
		c.trace = append(c.trace, k)
	}
	startNow := !c.started && k == c.p1 && n == c.occ1
	finishNow := c.started && !c.finished && c.p2 != "" && k == c.p2 && !startNow
	if startNow {
		c.started = true
	}
	c.mu.Unlock()
	if startNow {
		if c.eval {
			c.cancel() // Eval.run observes ctx.Done and calls Abort
			c.mu.Lock()
			c.aborting = true
			c.mu.Unlock()
			select {
			case <-c.doneCh:
			case <-time.After(2 * time.Second):
			}
			// the runner stays where it is for a while after the first Abort (a loaded scheduler):
			// Eval must keep repeating Abort until Run returns, however late Run resets the flag
			time.Sleep(8 * time.Millisecond)
			return
		}
		if c.free > 0 {
			go func() {
				time.Sleep(c.free)
				close(c.startCh)
			}()
			return
		}
		close(c.startCh)
		if c.p2 != "" {
			<-c.midCh
		} else {
			<-c.doneCh
		}
		return
	}
	if finishNow {
		close(c.contCh)
		<-c.doneCh
	}
}

const abortScriptRoot = `global sync
sync("a")
for { }
`

func abortScriptChild(childLoops bool, nested bool) string {
	body := `sync("c"); return c`
	if childLoops {
		body = `sync("c"); for { }; return c`
	}
	if nested {
		inner := body
		body = `return s.Map(func(d) { ` + inner + ` }, "x")`
		body = `sync("c1"); ` + body
	}
	return `global sync
s := import("strings")
sync("a")
r := s.Map(func(c) { ` + body + ` }, "ab")
sync("b")
for { }
`
}

// twice(fn): a Go callback which invokes fn three times through one Invoker without Acquire / Release
// (a child VM outside the sync.Pool, kept by the Invoker between the invocations)
func abortScriptNoPool(childLoops bool) string {
	body := `sync("c"); return i`
	if childLoops {
		body = `sync("c"); if i == 1 { for { } }; return i`
	}
	return `global(sync, twice)
sync("a")
r := twice(func(i) { ` + body + ` })
sync("b")
for { }
`
}

// (case id abort09 <scenario> <p1> <occ1> <p2|-> ) -> (outcome <aborted|error|returned|hang|unreached> <ms> (trace...))
// scenarios: root, child-loop, child-ret, nested-loop, eval-root, eval-child
func runAbort09(args []*Sexp) *Sexp {
	scenario, p1, occ := args[0].Atom, args[1].Atom, int(atomInt(args[2]))
	p2 := args[3].Atom
	if p2 == "-" {
		p2 = ""
	}
	ctl := &abortCtl{p1: p1, p2: p2, occ1: occ, seen: map[string]int{}, startCh: make(chan struct{}), midCh: make(chan struct{}),
		contCh: make(chan struct{}), doneCh: make(chan struct{})}
	if p1 == "delay" {
		// free-running: Abort some microseconds after the script reached its first sync call
		// (set before the runner starts: the hook reads these fields from the runner's goroutine)
		ctl.p1, ctl.p2 = "script.a.root", ""
		ctl.occ1 = 1
		ctl.free = time.Duration(occ) * time.Microsecond
	}
	ugo.VerifSyncHook = ctl.hook
	defer func() { ugo.VerifSyncHook = nil }()
	var src string
	switch scenario {
	case "root", "eval-root":
		src = abortScriptRoot
	case "child-loop", "eval-child":
		src = abortScriptChild(true, false)
	case "child-ret":
		src = abortScriptChild(false, false)
	case "nested-loop":
		src = abortScriptChild(true, true)
	case "nopool-loop":
		src = abortScriptNoPool(true)
	case "nopool-ret":
		src = abortScriptNoPool(false)
	default:
		return L(A("unknown-scenario"))
	}
	mm := ugo.NewModuleMap()
	mm.AddBuiltinModule("strings", ustrings.Module)
	var syncFn *ugo.Function
	syncFn = &ugo.Function{Name: "sync", ValueEx: func(c ugo.Call) (ugo.Object, error) {
		ctl.hook("script."+c.Get(0).String(), c.VM())
		return ugo.Undefined, nil
	}}
	twice := &ugo.Function{Name: "twice", ValueEx: func(c ugo.Call) (ugo.Object, error) {
		inv := ugo.NewInvoker(c.VM(), c.Get(0))
		var last ugo.Object = ugo.Undefined
		for i := 0; i < 3; i++ {
			v, err := inv.Invoke(ugo.Int(i))
			if err != nil {
				return ugo.Undefined, err
			}
			last = v
		}
		return last, nil
	}}
	globals := ugo.Map{"sync": syncFn, "twice": twice}
	type result struct {
		err error
		pan any
	}
	done := make(chan result, 1)
	abortReturned := make(chan struct{})
	var vm *ugo.VM
	t0 := time.Now()
	if scenario == "eval-root" || scenario == "eval-child" {
		ctx, cancel := context.WithCancel(context.Background())
		ctl.eval, ctl.cancel = true, cancel
		ev := ugo.NewEval(ugo.CompilerOptions{ModuleMap: mm}, globals)
		vm = ev.VM
		ctl.root = vm
		go func() {
			defer func() {
				if r := recover(); r != nil {
					done <- result{pan: r}
				}
			}()
			_, _, err := ev.Run(ctx, []byte(src))
			done <- result{err: err}
		}()
	} else {
		bc, err := ugo.Compile([]byte(src), ugo.CompilerOptions{ModuleMap: mm})
		if err != nil {
			return L(A("compile-error"), A(sanitize(err.Error())))
		}
		vm = ugo.NewVM(bc)
		ctl.root = vm
		go func() {
			defer func() {
				if r := recover(); r != nil {
					done <- result{pan: r}
				}
			}()
			_, err := vm.Run(globals)
			done <- result{err: err}
		}()
		// the aborting goroutine
		go func() {
			<-ctl.startCh
			ctl.mu.Lock()
			ctl.aborting = true
			ctl.mu.Unlock()
			vm.Abort()
			close(abortReturned)
		}()
	}
	outcome := "hang"
	var ms int64
	select {
	case r := <-done:
		ms = time.Since(t0).Milliseconds()
		switch {
		case r.pan != nil:
			outcome = "panic:" + sanitize(fmt.Sprint(r.pan))
		case r.err == nil:
			outcome = "returned"
		case r.err == ugo.ErrVMAborted || isAborted(r.err):
			outcome = "aborted"
		case r.err == context.Canceled:
			outcome = "aborted"
		default:
			outcome = "error:" + sanitize(firstLine(r.err.Error()))
		}
	case <-time.After(1500 * time.Millisecond):
		ms = 1500
	}
	ctl.mu.Lock()
	started := ctl.started
	trace := append([]string(nil), ctl.trace...)
	ctl.mu.Unlock()
	if !started {
		outcome = "unreached"
	}
	// clean up: stop whatever still runs
	ugo.VerifSyncHook = nil
	if ctl.cancel != nil {
		ctl.cancel()
	}
	select {
	case <-ctl.contCh:
	default:
		func() {
			defer func() { _ = recover() }()
			close(ctl.contCh)
		}()
	}
	if outcome == "hang" || outcome == "unreached" {
		for i := 0; i < 2000; i++ {
			vm.Abort()
			select {
			case <-done:
				i = 1 << 30
			case <-time.After(time.Millisecond):
			}
		}
	}
	// "an aborted VM runs later scripts normally": the same VM object, and VMs drawing child VMs
	// from the pool afterwards, run a script with pooled callbacks to completion
	if outcome == "aborted" && scenario != "eval-root" && scenario != "eval-child" {
		// the Abort call itself must have returned: a call still in progress may legitimately abort the next run
		select {
		case <-abortReturned:
		case <-time.After(2 * time.Second):
		}
		if why := abortFollowUp(vm, mm); why != "" {
			outcome = "rerun:" + sanitize(why)
		}
	}
	tr := L(A("trace"))
	for _, t := range trace {
		tr.List = append(tr.List, A(t))
	}
	return L(A("outcome"), A(outcome), A(fmt.Sprint(ms)), tr)
}

func abortFollowUp(vm *ugo.VM, mm *ugo.ModuleMap) string {
	src := "strings := import(\"strings\")\nn := 0\nout := strings.Map(func(c) { n++; return c + 1 }, \"abc\")\n" +
		"k := strings.IndexFunc(\"xyz\", func(c) { return c == 'z' })\nreturn out + string(n) + string(k)\n"
	bc, err := ugo.Compile([]byte(src), ugo.CompilerOptions{ModuleMap: mm})
	if err != nil {
		return "follow-up script does not compile: " + err.Error()
	}
	for round := 0; round < 3; round++ {
		for _, v := range []*ugo.VM{vm.SetBytecode(bc), ugo.NewVM(bc)} {
			v.Clear()
			type res struct {
				o   ugo.Object
				err error
			}
			ch := make(chan res, 1)
			go func() {
				o, err := v.Run(nil)
				ch <- res{o, err}
			}()
			select {
			case r := <-ch:
				if r.err != nil {
					return fmt.Sprintf("a script run after the abort (round %d) failed: %v", round, firstLine(r.err.Error()))
				}
				if r.o.String() != "bcd32" {
					return fmt.Sprintf("a script run after the abort returned %s", r.o.String())
				}
			case <-time.After(2 * time.Second):
				v.Abort()
				return "a script run after the abort did not return"
			}
		}
	}
	return ""
}

func isAborted(err error) bool {
	for err != nil {
		if err == ugo.ErrVMAborted {
			return true
		}
		switch e := err.(type) {
		case *ugo.RuntimeError:
			if e.Err == ugo.ErrVMAborted {
				return true
			}
			if e.Err != nil && e.Err.Cause != nil {
				err = e.Err.Cause
				continue
			}
			return e.Err != nil && e.Err.Name == ugo.ErrVMAborted.Name
		case *ugo.Error:
			if e.Name == ugo.ErrVMAborted.Name {
				return true
			}
			err = e.Cause
			continue
		}
		return false
	}
	return false
}

// (case id evalcancel <hex fragment>...): an Eval session in which the context of every second fragment is
// already cancelled when Run is called (or is cancelled by the fragment itself through the global `cancel`,
// every fourth); -> (evalcancel (<outcome> <ms>)...): the value or error of every fragment
func runEvalCancel(args []*Sexp) *Sexp {
	ev := ugo.NewEval(ugo.CompilerOptions{}, nil)
	out := L(A("evalcancel"))
	for i, a := range args {
		ctx, cancel := context.WithCancel(context.Background())
		if i%2 == 1 {
			cancel()
		}
		ev.Globals = ugo.Map{"cancel": &ugo.Function{Name: "cancel", Value: func(args ...ugo.Object) (ugo.Object, error) {
			cancel()
			return ugo.Undefined, nil
		}}}
		var res *Sexp
		t0 := time.Now()
		func() {
			defer func() {
				if r := recover(); r != nil {
					res = L(A("panic"), A(sanitize(fmt.Sprint(r))))
				}
			}()
			done := make(chan struct{})
			go func() {
				defer close(done)
				defer func() {
					if r := recover(); r != nil {
						res = L(A("panic"), A(sanitize(fmt.Sprint(r))))
					}
				}()
				v, _, err := ev.Run(ctx, atomBytes(a))
				if err != nil {
					res = errSexp(err)
				} else {
					res = L(A("ok"), SexpOfValue(v))
				}
			}()
			select {
			case <-done:
			case <-time.After(3 * time.Second):
				res = L(A("hang"))
			}
		}()
		cancel()
		out.List = append(out.List, L(res, A(fmt.Sprint(time.Since(t0).Milliseconds()))))
		if res.Head() == "hang" {
			break
		}
	}
	return out
}
