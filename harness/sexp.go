package main

import (
	"fmt"
	"strings"
)

// Sexp is an atom (List == nil, IsAtom) or a list.
type Sexp struct {
	Atom   string
	List   []*Sexp
	IsAtom bool
}

func A(s string) *Sexp         { return &Sexp{Atom: s, IsAtom: true} }
func L(items ...*Sexp) *Sexp   { return &Sexp{List: items} }
func (s *Sexp) Head() string {
	if s.IsAtom || len(s.List) == 0 || !s.List[0].IsAtom {
		return ""
	}
	return s.List[0].Atom
}

func (s *Sexp) String() string {
	var b strings.Builder
	s.write(&b)
	return b.String()
}

func (s *Sexp) write(b *strings.Builder) {
	if s.IsAtom {
		b.WriteString(s.Atom)
		return
	}
	b.WriteByte('(')
	for i, x := range s.List {
		if i > 0 {
			b.WriteByte(' ')
		}
		x.write(b)
	}
	b.WriteByte(')')
}

func ParseSexp(src string) (*Sexp, error) {
	pos := 0
	var item func() (*Sexp, error)
	skip := func() {
		for pos < len(src) && (src[pos] == ' ' || src[pos] == '\t' || src[pos] == '\n' || src[pos] == '\r') {
			pos++
		}
	}
	item = func() (*Sexp, error) {
		skip()
		if pos >= len(src) {
			return nil, fmt.Errorf("sexp: eof")
		}
		if src[pos] == '(' {
			pos++
			out := &Sexp{List: []*Sexp{}}
			for {
				skip()
				if pos >= len(src) {
					return nil, fmt.Errorf("sexp: unclosed")
				}
				if src[pos] == ')' {
					pos++
					return out, nil
				}
				x, err := item()
				if err != nil {
					return nil, err
				}
				out.List = append(out.List, x)
			}
		}
		st := pos
		for pos < len(src) && !strings.ContainsRune(" ()\t\n\r", rune(src[pos])) {
			pos++
		}
		return A(src[st:pos]), nil
	}
	return item()
}
