module verif/harness

go 1.23

require github.com/ozanh/ugo v0.0.0

replace github.com/ozanh/ugo => /repo
