package main

import (
	"bytes"
	"fmt"
	"sort"
	"strconv"

	"github.com/ozanh/ugo"
	"github.com/ozanh/ugo/encoder"
	"github.com/ozanh/ugo/parser"
)

// (case id trace <opt|noopt> <encdec 0|1> <main hex> <module hex>...)
func runTrace(args []*Sexp) *Sexp {
	mm := moduleMapStd()
	for i, a := range args[3:] {
		mm.AddSourceModule(fmt.Sprintf("m%d", i+1), atomBytes(a))
	}
	bc, err, pan := compileSrc(atomBytes(args[2]), ugo.CompilerOptions{ModuleMap: mm, NoOptimize: args[0].Atom == "noopt"})
	if pan != nil {
		return L(A("compile-panic"))
	}
	if err != nil {
		return L(A("compile-error"), A(sanitize(firstLine(err.Error()))))
	}
	if args[1].Atom == "1" {
		var buf bytes.Buffer
		if err := encoder.EncodeBytecodeTo(bc, &buf); err != nil {
			return L(A("encode-error"))
		}
		bc, err = encoder.DecodeBytecodeFrom(bytes.NewReader(buf.Bytes()), mm)
		if err != nil {
			return L(A("decode-error"))
		}
	}
	_, rerr := ugo.NewVM(bc).Run(nil)
	trace := L(A("trace"))
	name := "none"
	if re, ok := rerr.(*ugo.RuntimeError); ok {
		name = re.Err.Name
		if name == "" {
			name = "error"
		}
		for _, p := range re.StackTrace() {
			inside := "0"
			for _, f := range bc.FileSet.Files {
				if f.Name == p.Filename && p.Offset >= 0 && p.Offset <= f.Size {
					inside = "1"
				}
			}
			trace.List = append(trace.List, L(hexAtom([]byte(p.Filename)), A(strconv.Itoa(p.Line)), A(strconv.Itoa(p.Column)), A(strconv.Itoa(p.Offset)), A(inside)))
		}
	} else if rerr != nil {
		name = "other:" + sanitize(rerr.Error())
	}
	files := L(A("files"))
	for _, f := range bc.FileSet.Files {
		lines := L(A("lines"))
		for _, l := range f.Lines {
			lines.List = append(lines.List, A(strconv.Itoa(l)))
		}
		// sampled positions of this file resolved by the implementation
		samples := L(A("unpack"))
		step := f.Size/7 + 1
		for off := 0; off <= f.Size; off += step {
			pos := bc.FileSet.Position(parser.Pos(f.Base + off))
			samples.List = append(samples.List, L(A(strconv.Itoa(off)), A(strconv.Itoa(pos.Line)), A(strconv.Itoa(pos.Column))))
		}
		// file lookup of the implementation on the edges of this file's range
		fileof := L(A("fileof"))
		for _, p := range []int{f.Base, f.Base + f.Size/2, f.Base + f.Size, f.Base + f.Size + 1} {
			idx := -1
			if p > 0 {
				if g := bc.FileSet.File(parser.Pos(p)); g != nil {
					for i, h := range bc.FileSet.Files {
						if h == g {
							idx = i
						}
					}
				}
				fileof.List = append(fileof.List, L(A(strconv.Itoa(p)), A(strconv.Itoa(idx))))
			}
		}
		files.List = append(files.List, L(hexAtom([]byte(f.Name)), A(strconv.Itoa(f.Base)), A(strconv.Itoa(f.Size)), lines, samples, fileof))
	}
	// the real source map of every compiled function with the implementation's nearest-lower lookup
	smaps := L(A("smaps"))
	fns := []*ugo.CompiledFunction{bc.Main}
	for _, c := range bc.Constants {
		if cf, ok := c.(*ugo.CompiledFunction); ok {
			fns = append(fns, cf)
		}
	}
	for _, cf := range fns {
		keys := make([]int, 0, len(cf.SourceMap))
		for k := range cf.SourceMap {
			keys = append(keys, k)
		}
		sort.Ints(keys)
		pairs := L(A("pairs"))
		for _, k := range keys {
			pairs.List = append(pairs.List, L(A(strconv.Itoa(k)), A(strconv.Itoa(cf.SourceMap[k]))))
		}
		qs := L(A("queries"))
		for ip := -2; ip <= len(cf.Instructions)+2; ip++ {
			qs.List = append(qs.List, L(A(strconv.Itoa(ip)), A(strconv.Itoa(int(cf.SourcePos(ip))))))
		}
		smaps.List = append(smaps.List, L(pairs, qs))
	}
	return L(A("traced"), A(name), trace, files, smaps)
}

// (case id addlines <size> (offs o1 o2 ...)): a new file of the given size, AddLine for every offset in turn
func runAddLines(args []*Sexp) *Sexp {
	size, _ := strconv.Atoi(args[0].Atom)
	fs := parser.NewFileSet()
	f := fs.AddFile("x", -1, size)
	for _, a := range args[1].List[1:] {
		off, _ := strconv.Atoi(a.Atom)
		f.AddLine(off)
	}
	lines := L(A("lines"))
	for _, l := range f.Lines {
		lines.List = append(lines.List, A(strconv.Itoa(l)))
	}
	return lines
}
