package main

import (
	"errors"
	"fmt"
	"strings"
	"sync"

	"github.com/ozanh/ugo"
	"github.com/ozanh/ugo/parser"
	ufmt "github.com/ozanh/ugo/stdlib/fmt"
	ujson "github.com/ozanh/ugo/stdlib/json"
	ustrings "github.com/ozanh/ugo/stdlib/strings"
)

// ---- C08: many VMs over one Bytecode ----

func moduleMapAll(srcMods []*Sexp) *ugo.ModuleMap {
	mm := moduleMapStd()
	mm.AddBuiltinModule("strings", ustrings.Module)
	mm.AddBuiltinModule("fmt", ufmt.Module)
	mm.AddBuiltinModule("json", ujson.Module)
	mm.AddBuiltinModule("emod", emodAttrs())
	// Go modules of a host Importable whose value is not a map
	mm.Add("cbytes", objImporter{ugo.Bytes{1, 2, 3}})
	mm.Add("carr", objImporter{ugo.Array{ugo.Int(1), ugo.Array{ugo.Int(2)}}})
	mm.Add("csm", objImporter{&ugo.SyncMap{Value: ugo.Map{"k": ugo.Int(1), "inner": ugo.Map{}}}})
	for i, a := range srcMods {
		mm.AddSourceModule(fmt.Sprintf("m%d", i+1), atomBytes(a))
	}
	return mm
}

// emod is a builtin module whose values are error objects, alone and inside every container kind:
// the error of a failed run the host kept (a runtime error whose trace slice has spare capacity,
// as append leaves it) and a plain error. Every VM must get its own copy of them.
func emodAttrs() map[string]ugo.Object {
	mk := func() *ugo.RuntimeError {
		bc, err := ugo.Compile([]byte(strings.Repeat("// start-up script\n", 30)+"f := func() { throw error(\"start-up failed\") }\ng := func() { f() }\ng()\n"), ugo.CompilerOptions{})
		if err != nil {
			panic(err)
		}
		_, err = ugo.NewVM(bc).Run(nil)
		var re *ugo.RuntimeError
		if !errors.As(err, &re) {
			panic("runtime error expected")
		}
		tr := make([]parser.Pos, len(re.Trace), len(re.Trace)+2)
		copy(tr, re.Trace)
		re.Trace = tr
		return re
	}
	return map[string]ugo.Object{
		"rerr": mk(),
		"err":  &ugo.Error{Name: "hostError", Message: "kept by the host"},
		"box":  ugo.Map{"rerr": mk(), "arr": ugo.Array{mk(), &ugo.Error{Name: "e2", Message: "in array"}}},
		"sm":   &ugo.SyncMap{Value: ugo.Map{"rerr": mk()}},
	}
}

func concGlobals() ugo.Map {
	return ugo.Map{"inp": ugo.Int(7), "acc": ugo.Array{}, "cfg": ugo.Map{"k": ugo.Int(1)}}
}

// canonical outcome of one run; errors are formatted with their stack traces, which reads the
// shared file set
func concOutcome(v ugo.Object, err error, pan any) string {
	if pan != nil {
		return "panic " + sanitize(fmt.Sprint(pan))
	}
	if err != nil {
		s := fmt.Sprintf("%+v", err)
		if i := strings.Index(s, "\nGo Stack:"); i >= 0 {
			s = s[:i]
		}
		return "err " + sanitize(s)
	}
	return "ok " + SexpOfValue(v).String()
}

func concRun(vm *ugo.VM) (out string) {
	g := concGlobals()
	var v ugo.Object
	var err error
	var pan any
	func() {
		defer func() {
			if r := recover(); r != nil {
				pan = r
			}
		}()
		v, err = vm.Run(g)
	}()
	out = concOutcome(v, err, pan)
	// what the script left in its own globals is part of the outcome
	out += " acc=" + SexpOfValue(g["acc"]).String()
	return
}

// (case id conc <nvm> <iters> <main hex> <module hex>...)
// -> (ok <solo outcome>) | (diff <vm> <iter> <got> <solo>) | (compile-error ..)
func runConc(args []*Sexp) *Sexp {
	nvm, iters := int(atomInt(args[0])), int(atomInt(args[1]))
	mm := moduleMapAll(args[3:])
	bc, err, pan := compileSrc(atomBytes(args[2]), ugo.CompilerOptions{ModuleMap: mm})
	if pan == nil && err != nil {
		// constant expressions that fail are refused by the optimizer; they fail at run time without it
		bc, err, pan = compileSrc(atomBytes(args[2]), ugo.CompilerOptions{ModuleMap: moduleMapAll(args[3:]), NoOptimize: true})
	}
	if pan != nil {
		return L(A("compile-panic"), A(sanitize(fmt.Sprint(pan))))
	}
	if err != nil {
		return L(A("compile-error"), A(sanitize(firstLine(err.Error()))))
	}
	solo := concRun(ugo.NewVM(bc))
	solo2 := concRun(ugo.NewVM(bc))
	if solo != solo2 {
		// either the program is not deterministic by itself (time, map order), or the first VM
		// left something behind in the shared Bytecode: a second compilation tells which
		bcB, errB, panB := compileSrc(atomBytes(args[2]), ugo.CompilerOptions{ModuleMap: moduleMapAll(args[3:]), NoOptimize: bc.Main != nil && false})
		if errB != nil || panB != nil {
			bcB, _, _ = compileSrc(atomBytes(args[2]), ugo.CompilerOptions{ModuleMap: moduleMapAll(args[3:]), NoOptimize: true})
		}
		if bcB != nil && concRun(ugo.NewVM(bcB)) == solo {
			return L(A("leak"), hexAtom([]byte(solo2)), hexAtom([]byte(solo)))
		}
		return L(A("nondeterministic"))
	}
	type diff struct {
		vm, iter int
		got      string
	}
	var mu sync.Mutex
	var first *diff
	var wg sync.WaitGroup
	start := make(chan struct{})
	for i := 0; i < nvm; i++ {
		wg.Add(1)
		go func(i int) {
			defer wg.Done()
			vm := ugo.NewVM(bc)
			<-start
			for it := 0; it < iters; it++ {
				if it > 0 {
					vm.Clear() // a VM keeps its module cache between runs by design
				}
				got := concRun(vm)
				if got != solo {
					mu.Lock()
					if first == nil {
						first = &diff{i, it, got}
					}
					mu.Unlock()
					return
				}
			}
		}(i)
	}
	close(start)
	wg.Wait()
	if first != nil {
		return L(A("diff"), A(fmt.Sprint(first.vm)), A(fmt.Sprint(first.iter)), hexAtom([]byte(first.got)), hexAtom([]byte(solo)))
	}
	return L(A("ok"), hexAtom([]byte(solo)))
}

// constant kinds for the sharing validator: imm (immutable value), fn (compiled function),
// copier (container whose Copy is deep down to immutable leaves / functions), mut (anything else)
func shareKind(o ugo.Object) string {
	switch v := o.(type) {
	case ugo.Int, ugo.Uint, ugo.Float, ugo.Char, ugo.String, ugo.Bool, *ugo.UndefinedType:
		return "imm"
	case *ugo.CompiledFunction:
		return "fn"
	case *ugo.Function, *ugo.BuiltinFunction:
		return "imm" // Go function values are not mutable from scripts
	case ugo.Map:
		for _, e := range v {
			if k := shareKind(e); k == "mut" {
				return "mut"
			}
		}
		return "copier"
	case ugo.Array:
		for _, e := range v {
			if k := shareKind(e); k == "mut" {
				return "mut"
			}
		}
		return "copier"
	case ugo.Bytes:
		return "copier"
	case *ugo.SyncMap:
		for _, e := range v.Value {
			if k := shareKind(e); k == "mut" {
				return "mut"
			}
		}
		return "copier"
	case *ugo.Error, *ugo.RuntimeError:
		return "copier"
	}
	return "mut"
}

// (case id sharedump <main hex> <module hex>...) -> (share (consts kind...) (fn (pos name size operands...)...)...)
func runShareDump(args []*Sexp) *Sexp {
	mm := moduleMapAll(args[1:])
	bc, err, pan := compileSrc(atomBytes(args[0]), ugo.CompilerOptions{ModuleMap: mm})
	if pan == nil && err != nil {
		bc, err, pan = compileSrc(atomBytes(args[0]), ugo.CompilerOptions{ModuleMap: moduleMapAll(args[1:]), NoOptimize: true})
	}
	if pan != nil || err != nil {
		return L(A("compile-error"))
	}
	consts := L(A("consts"))
	for _, c := range bc.Constants {
		consts.List = append(consts.List, A(shareKind(c)))
	}
	out := L(A("share"), consts)
	dump := func(cf *ugo.CompiledFunction) {
		fn := L(A("fn"))
		ugo.IterateInstructions(cf.Instructions, func(pos int, op ugo.Opcode, operands []int, offset int) bool {
			it := L(A(fmt.Sprint(pos)), A(ugo.OpcodeNames[op]), A(fmt.Sprint(1+offset)))
			for _, o := range operands {
				it.List = append(it.List, A(fmt.Sprint(o)))
			}
			fn.List = append(fn.List, it)
			return true
		})
		out.List = append(out.List, fn)
	}
	dump(bc.Main)
	for _, c := range bc.Constants {
		if cf, ok := c.(*ugo.CompiledFunction); ok {
			dump(cf)
		}
	}
	return out
}

// (case id poolabort <rounds> <par>) -> (ok <runs>) | (diff <round> <got> <solo>)
// A VM that is aborted by the host while one of its callbacks runs on a pooled child VM must not
// affect VMs that are not aborted: in every round VM A aborts itself from inside the n-th callback,
// then (same goroutine, so the same pool shard) and concurrently (par goroutines) other VMs over
// the same Bytecode run the script and must return what it returns alone.
func runPoolAbort(args []*Sexp) *Sexp {
	rounds, par := int(atomInt(args[0])), int(atomInt(args[1]))
	src := "global hook\nstrings := import(\"strings\")\nn := 0\nout := strings.Map(func(c) { n++; hook(n); return c + 1 }, \"abcdef\")\n" +
		"m := strings.IndexFunc(\"xyz\", func(c) { hook(0); return c == 'z' })\nreturn [out, n, m]\n"
	bc, err, pan := compileSrc([]byte(src), ugo.CompilerOptions{ModuleMap: moduleMapAll(nil)})
	if err != nil || pan != nil {
		return L(A("compile-error"), A(sanitize(fmt.Sprint(err, pan))))
	}
	src3 := "global hook\nstrings := import(\"strings\")\nout := strings.Map(func(c) { hook(1); return c + 1 }, \"abc\")\nhook(-1)\nreturn out\n"
	bc3, err, pan := compileSrc([]byte(src3), ugo.CompilerOptions{ModuleMap: moduleMapAll(nil)})
	if err != nil || pan != nil {
		return L(A("compile-error"), A(sanitize(fmt.Sprint(err, pan))))
	}
	noop := &ugo.Function{Name: "hook", Value: func(args ...ugo.Object) (ugo.Object, error) { return ugo.Undefined, nil }}
	run := func(vm *ugo.VM, hook ugo.Object) string {
		v, err := vm.Run(ugo.Map{"hook": hook})
		return concOutcome(v, err, nil)
	}
	solo := run(ugo.NewVM(bc), noop)
	runs := 0
	for r := 0; r < rounds; r++ {
		a := ugo.NewVM(bc)
		at := int64(r % 7)
		abortHook := &ugo.Function{Name: "hook", Value: func(args ...ugo.Object) (ugo.Object, error) {
			if n, _ := ugo.ToGoInt64(args[0]); n == at {
				a.Abort()
			}
			return ugo.Undefined, nil
		}}
		_ = run(a, abortHook)
		if got := run(ugo.NewVM(bc), noop); got != solo {
			return L(A("diff"), A(fmt.Sprint(r)), hexAtom([]byte(got)), hexAtom([]byte(solo)))
		}
		runs++
		// VM A2 has completed a pooled callback (its child went back to the pool) and then calls a Go function
		// from its main script; that function runs VM B on the same goroutine - B's callback takes the child A2
		// gave back - and, from inside B's callback, the host aborts A2: B is not aborted
		{
			a3 := ugo.NewVM(bc3)
			var gotB string
			hookA := &ugo.Function{Name: "hook", Value: func(args ...ugo.Object) (ugo.Object, error) {
				if n, _ := ugo.ToGoInt64(args[0]); n != -1 {
					return ugo.Undefined, nil
				}
				hookB := &ugo.Function{Name: "hook", Value: func(args ...ugo.Object) (ugo.Object, error) {
					if n, _ := ugo.ToGoInt64(args[0]); n == at {
						a3.Abort()
					}
					return ugo.Undefined, nil
				}}
				gotB = run(ugo.NewVM(bc), hookB)
				return ugo.Undefined, nil
			}}
			_ = run(a3, hookA)
			if gotB != solo {
				return L(A("diff"), A(fmt.Sprint(r)), hexAtom([]byte(gotB)), hexAtom([]byte(solo)))
			}
			runs++
		}
		var wg sync.WaitGroup
		var mu sync.Mutex
		bad := ""
		for i := 0; i < par; i++ {
			wg.Add(1)
			go func(i int) {
				defer wg.Done()
				if i%2 == 0 {
					a2 := ugo.NewVM(bc)
					h := &ugo.Function{Name: "hook", Value: func(args ...ugo.Object) (ugo.Object, error) {
						if n, _ := ugo.ToGoInt64(args[0]); n == at {
							a2.Abort()
						}
						return ugo.Undefined, nil
					}}
					_ = run(a2, h)
					return
				}
				if got := run(ugo.NewVM(bc), noop); got != solo {
					mu.Lock()
					bad = got
					mu.Unlock()
				}
			}(i)
		}
		wg.Wait()
		runs += par / 2
		if bad != "" {
			return L(A("diff"), A(fmt.Sprint(r)), hexAtom([]byte(bad)), hexAtom([]byte(solo)))
		}
	}
	return L(A("ok"), A(fmt.Sprint(runs)))
}
