package main

import (
	"bytes"
	"context"
	"fmt"
	"strings"

	"github.com/ozanh/ugo"
)

func stripPos(s string) string {
	if i := strings.Index(s, "\n\tat "); i >= 0 {
		return s[:i]
	}
	return s
}

func evalErrSexp(err error) *Sexp {
	switch e := err.(type) {
	case *ugo.RuntimeError:
		return L(A("err"), hexAtom([]byte(e.Err.Name)), hexAtom([]byte(e.Err.Message)))
	case *ugo.Error:
		return L(A("err"), hexAtom([]byte(e.Name)), hexAtom([]byte(e.Message)))
	}
	return L(A("err"), hexAtom([]byte("go")), hexAtom([]byte(stripPos(err.Error()))))
}

// (case id evalseq <opt|noopt> (frags <hex>...) <probe hex> <module hex>...)
// arguments the host gives to a session (NewEval) and to the run of the concatenated script
func hostArgs() []ugo.Object {
	return []ugo.Object{ugo.Int(11), ugo.String("s2"), ugo.Array{ugo.Int(1), ugo.Int(2)}}
}

// Runs the fragments in one Eval session and, for every prefix, the concatenation as one script.
func runEvalSeq(args []*Sexp) *Sexp {
	noopt := args[0].Atom == "noopt"
	var frags []string
	for _, a := range args[1].List[1:] {
		frags = append(frags, string(atomBytes(a)))
	}
	probe := string(atomBytes(args[2]))
	mkmm := func() *ugo.ModuleMap {
		mm := moduleMapStd()
		for i, a := range args[3:] {
			mm.AddSourceModule(fmt.Sprintf("m%d", i+1), atomBytes(a))
		}
		return mm
	}
	var out bytes.Buffer
	old := ugo.PrintWriter
	ugo.PrintWriter = &out
	defer func() { ugo.PrintWriter = old }()

	evalRes := L(A("eval"))
	ev := ugo.NewEval(ugo.CompilerOptions{ModuleMap: mkmm(), NoOptimize: noopt}, ugo.Map{"g0": ugo.Int(0)}, hostArgs()...)
	failed := false
	runFrag := func(src string) *Sexp {
		out.Reset()
		var v ugo.Object
		var err error
		func() {
			defer func() {
				if r := recover(); r != nil {
					err = fmt.Errorf("panic: %v", r)
				}
			}()
			v, _, err = ev.Run(context.Background(), []byte(src))
		}()
		if err != nil {
			return L(evalErrSexp(err), hexAtom(out.Bytes()))
		}
		return L(L(A("ok"), SexpOfValue(v)), hexAtom(out.Bytes()))
	}
	for _, f := range frags {
		r := runFrag(f)
		evalRes.List = append(evalRes.List, r)
		if r.List[0].Head() == "err" {
			failed = true
			break
		}
	}
	if !failed {
		evalRes.List = append(evalRes.List, L(A("probe"), runFrag(probe)))
	}
	// batch: every prefix as one script on a fresh VM; the value of the prefix is the value of
	// its last fragment (the harness marks it with a leading "return " when it is an expression)
	batchRes := L(A("batch"))
	n := len(evalRes.List) - 1
	runBatch := func(src string) *Sexp {
		out.Reset()
		bc, err, pan := compileSrc([]byte(src), ugo.CompilerOptions{ModuleMap: mkmm(), NoOptimize: noopt})
		if pan != nil {
			return L(L(A("compile-panic")), hexAtom(nil))
		}
		if err != nil {
			return L(evalErrSexp(err), hexAtom(nil))
		}
		vm := ugo.NewVM(bc).SetRecover(true)
		res := runVM(vm, ugo.Map{"g0": ugo.Int(0)}, hostArgs()...)
		return L(res, hexAtom(out.Bytes()))
	}
	prefix := ""
	for i := 0; i < len(frags) && i < n; i++ {
		batchRes.List = append(batchRes.List, runBatch(prefix+frags[i]+"\n"))
		prefix += unreturnLast(frags[i]) + "\n"
	}
	if !failed {
		batchRes.List = append(batchRes.List, L(A("probe"), runBatch(prefix+probe+"\n")))
	}
	return L(A("evalseq"), evalRes, batchRes)
}

// unreturnLast turns a final `return <expr>` line of a fragment into the expression statement
// `<expr>`, as it appears inside the concatenated script.
func unreturnLast(f string) string {
	i := strings.LastIndex(f, "\n")
	last := f[i+1:]
	if strings.HasPrefix(last, "return ") {
		return f[:i+1] + strings.TrimPrefix(last, "return ")
	}
	return f
}

// (case id evalfailstate <opt|noopt> (frags <hex>...) <fail hex> <probe hex> <module hex>...)
// The last fragment is extended by a statement that fails at run time; the variable state the
// session keeps afterwards (read by the probe) must be the state after the statements that ran:
// the state of a session in which the last fragment ran without the failing statement, and of the
// concatenated script.
func runEvalFailState(args []*Sexp) *Sexp {
	noopt := args[0].Atom == "noopt"
	var frags []string
	for _, a := range args[1].List[1:] {
		frags = append(frags, string(atomBytes(a)))
	}
	fail := string(atomBytes(args[2]))
	probe := string(atomBytes(args[3]))
	mkmm := func() *ugo.ModuleMap {
		mm := moduleMapStd()
		for i, a := range args[4:] {
			mm.AddSourceModule(fmt.Sprintf("m%d", i+1), atomBytes(a))
		}
		return mm
	}
	var out bytes.Buffer
	old := ugo.PrintWriter
	ugo.PrintWriter = &out
	defer func() { ugo.PrintWriter = old }()
	session := func(withFail bool) *Sexp {
		ev := ugo.NewEval(ugo.CompilerOptions{ModuleMap: mkmm(), NoOptimize: noopt}, ugo.Map{"g0": ugo.Int(0)}, hostArgs()...)
		run := func(src string) (v ugo.Object, err error) {
			defer func() {
				if r := recover(); r != nil {
					err = fmt.Errorf("panic: %v", r)
				}
			}()
			v, _, err = ev.Run(context.Background(), []byte(src))
			return
		}
		for i, f := range frags {
			src := unreturnLast(f)
			last := i == len(frags)-1
			if last && withFail {
				src += "\n" + fail
			}
			_, err := run(src)
			if last && withFail {
				if err == nil {
					return L(A("skip"), A("the failing statement did not fail"))
				}
				continue
			}
			if err != nil {
				return L(A("skip"), A("fragment fails by itself"))
			}
		}
		v, err := run(probe)
		if err != nil {
			return evalErrSexp(err)
		}
		return L(A("ok"), SexpOfValue(v))
	}
	// the fragments must run by themselves; the probe may then read every declared variable
	without := session(false)
	if without.Head() == "skip" {
		return L(A("evalfailstate"), without, without, L(A("skip")))
	}
	withFail := session(true)
	src := ""
	for _, f := range frags {
		src += unreturnLast(f) + "\n"
	}
	batch := L(A("skip"))
	if bc, err, pan := compileSrc([]byte(src+probe+"\n"), ugo.CompilerOptions{ModuleMap: mkmm(), NoOptimize: noopt}); err == nil && pan == nil {
		batch = runVM(ugo.NewVM(bc).SetRecover(true), ugo.Map{"g0": ugo.Int(0)}, hostArgs()...)
	}
	return L(A("evalfailstate"), withFail, without, batch)
}
