package main

import (
	"strings"
	"bytes"
	"context"
	"fmt"
	"sort"
	"strconv"

	"github.com/ozanh/ugo"
)

func symSexp(s *ugo.Symbol, flag bool) *Sexp {
	c, f := "0", "0"
	if s.Constant {
		c = "1"
	}
	if flag {
		f = "1"
	}
	return L(A("sym"), hexAtom([]byte(s.Name)), A(strconv.Itoa(s.Index)), A(s.Scope.String()), A(c), A(f))
}

func boolSexp(b bool) *Sexp {
	if b {
		return L(A("b"), A("1"))
	}
	return L(A("b"), A("0"))
}

func runSymtab(args []*Sexp) *Sexp {
	st := ugo.NewSymbolTable()
	out := L()
	for _, op := range args {
		switch op.Head() {
		case "fork":
			st = st.Fork(op.List[1].Atom == "1")
			out.List = append(out.List, L(A("none")))
		case "leave":
			if p := st.Parent(false); p != nil {
				st = p
			}
			out.List = append(out.List, L(A("none")))
		case "resolve":
			s, ok := st.Resolve(string(atomBytes(op.List[1])))
			if ok {
				out.List = append(out.List, symSexp(s, true))
			} else {
				out.List = append(out.List, boolSexp(false))
			}
		case "deflocal":
			s, ex := st.DefineLocal(string(atomBytes(op.List[1])))
			out.List = append(out.List, symSexp(s, ex))
		case "defconst":
			s, ex := st.VerifDefineConstLit(string(atomBytes(op.List[1])))
			out.List = append(out.List, symSexp(s, ex))
		case "defglobal":
			s, err := st.DefineGlobal(string(atomBytes(op.List[1])))
			if err != nil {
				out.List = append(out.List, boolSexp(false))
			} else {
				out.List = append(out.List, symSexp(s, true))
			}
		case "params":
			var ps []string
			for _, a := range op.List[1:] {
				ps = append(ps, string(atomBytes(a)))
			}
			out.List = append(out.List, boolSexp(st.SetParams(ps...) == nil))
		case "disable":
			var ns []string
			for _, a := range op.List[1:] {
				ns = append(ns, string(atomBytes(a)))
			}
			st.DisableBuiltin(ns...)
			out.List = append(out.List, L(A("none")))
		}
	}
	return out
}

// builtinRefs lists the builtin names referenced by GETBUILTIN in every function of bc.
func builtinRefs(bc *ugo.Bytecode) []string {
	names := map[int]string{}
	for n, i := range ugo.BuiltinsMap {
		names[int(i)] = n
	}
	seen := map[string]bool{}
	scan := func(cf *ugo.CompiledFunction) {
		if cf == nil {
			return
		}
		ugo.IterateInstructions(cf.Instructions, func(pos int, op ugo.Opcode, operands []int, offset int) bool {
			if op == ugo.OpGetBuiltin {
				seen[names[operands[0]]] = true
			}
			return true
		})
	}
	scan(bc.Main)
	for _, c := range bc.Constants {
		if cf, ok := c.(*ugo.CompiledFunction); ok {
			scan(cf)
		}
	}
	out := make([]string, 0, len(seen))
	for n := range seen {
		out = append(out, n)
	}
	return out
}

// (case id disprog <opt|noopt> <batch|eval> (dis xN ...) <src hex> <module hex>...)
func runDisProg(args []*Sexp) *Sexp {
	optimize := args[0].Atom == "opt"
	eval := args[1].Atom == "eval"
	var disabled []string
	pre := map[string]bool{} // names (atoms written g<hex>) the host declares as globals before it disables them
	for _, a := range args[2].List[1:] {
		if strings.HasPrefix(a.Atom, "g") {
			n := string(atomBytes(A(a.Atom[1:])))
			pre[n] = true
			disabled = append(disabled, n)
			continue
		}
		disabled = append(disabled, string(atomBytes(a)))
	}
	src := atomBytes(args[3])
	mm := moduleMapStd()
	for i, a := range args[4:] {
		mm.AddSourceModule("m"+strconv.Itoa(i+1), atomBytes(a))
	}
	// instrument the disabled builtins: any call is recorded
	called := map[string]bool{}
	type saved struct {
		idx int
		obj ugo.Object
	}
	var restore []saved
	for _, n := range disabled {
		idx, ok := ugo.BuiltinsMap[n]
		if !ok {
			continue
		}
		orig := ugo.BuiltinObjects[idx]
		bf, isFn := orig.(*ugo.BuiltinFunction)
		if !isFn {
			continue
		}
		name := n
		restore = append(restore, saved{int(idx), orig})
		ugo.BuiltinObjects[idx] = &ugo.BuiltinFunction{Name: bf.Name,
			Value: func(a ...ugo.Object) (ugo.Object, error) { called[name] = true; return bf.Value(a...) },
			ValueEx: func(c ugo.Call) (ugo.Object, error) {
				called[name] = true
				if bf.ValueEx != nil {
					return bf.ValueEx(c)
				}
				all := make([]ugo.Object, 0, c.Len())
				for i := 0; i < c.Len(); i++ {
					all = append(all, c.Get(i))
				}
				return bf.Value(all...)
			}}
	}
	defer func() {
		for _, s := range restore {
			ugo.BuiltinObjects[s.idx] = s.obj
		}
	}()
	st := ugo.NewSymbolTable()
	for n := range pre {
		if _, err := st.DefineGlobal(n); err != nil {
			return L(A("harness-error"), A(sanitize(err.Error())))
		}
	}
	st.DisableBuiltin(disabled...)
	opts := ugo.CompilerOptions{ModuleMap: mm, SymbolTable: st, NoOptimize: !optimize}
	refs := map[string]bool{}
	var outcome *Sexp
	if !eval {
		bc, err, pan := compileSrc(src, opts)
		if pan != nil {
			return L(A("compile-panic"))
		}
		if err != nil {
			outcome = L(A("compile-error"))
		} else {
			for _, r := range builtinRefs(bc) {
				refs[r] = true
			}
			outcome = runBytecode(bc, nil)
		}
	} else {
		ev := ugo.NewEval(opts, nil)
		outcome = L(A("ok"), L(A("n")))
		for _, frag := range bytes.Split(src, []byte("\n//CUT\n")) {
			var bc *ugo.Bytecode
			var err error
			func() {
				defer func() {
					if r := recover(); r != nil {
						err = fmt.Errorf("panic %v", r)
					}
				}()
				_, bc, err = ev.Run(context.Background(), frag)
			}()
			if bc != nil {
				for _, r := range builtinRefs(bc) {
					refs[r] = true
				}
			}
			if err != nil {
				outcome = L(A("err"))
				break
			}
		}
	}
	rl := L(A("refs"))
	var rs []string
	for r := range refs {
		rs = append(rs, r)
	}
	sort.Strings(rs)
	for _, r := range rs {
		rl.List = append(rl.List, hexAtom([]byte(r)))
	}
	cl := L(A("called"))
	var cs []string
	for c := range called {
		cs = append(cs, c)
	}
	sort.Strings(cs)
	for _, c := range cs {
		cl.List = append(cl.List, hexAtom([]byte(c)))
	}
	return L(A("disprog"), rl, cl, outcome)
}
