package main

import (
	"bytes"
	"fmt"
	"sort"
	"strings"
	"time"

	"github.com/ozanh/ugo"
)

// runBytecode runs bc on a new VM under a watchdog and returns a canonical outcome:
// (ok value) | (err name msg) | (timeout) | (panic text); printed output is appended when captured.
func runBytecode(bc *ugo.Bytecode, globals ugo.Object, args ...ugo.Object) (out *Sexp) {
	vm := ugo.NewVM(bc)
	return runVM(vm, globals, args...)
}

func runVM(vm *ugo.VM, globals ugo.Object, args ...ugo.Object) (out *Sexp) {
	type result struct {
		v   ugo.Object
		err error
		pan any
	}
	done := make(chan result, 1)
	go func() {
		defer func() {
			if r := recover(); r != nil {
				done <- result{pan: r}
			}
		}()
		v, err := vm.Run(globals, args...)
		done <- result{v: v, err: err}
	}()
	select {
	case r := <-done:
		if r.pan != nil {
			return L(A("panic"), A(sanitize(fmt.Sprint(r.pan))))
		}
		if r.err != nil {
			return errSexp(r.err)
		}
		return L(A("ok"), SexpOfValue(r.v))
	case <-time.After(3 * time.Second):
		vm.Abort()
		select {
		case <-done:
		case <-time.After(2 * time.Second):
		}
		return L(A("timeout"))
	}
}

func sanitize(s string) string {
	r := strings.NewReplacer(" ", "_", "(", "[", ")", "]", "\n", "|", "\t", "_")
	return r.Replace(s)
}

func srcMapSexp(m map[int]int) *Sexp {
	keys := make([]int, 0, len(m))
	for k := range m {
		keys = append(keys, k)
	}
	sort.Ints(keys)
	out := L(A("sm"))
	for _, k := range keys {
		out.List = append(out.List, L(A(fmt.Sprint(k)), A(fmt.Sprint(m[k]))))
	}
	return out
}

func compileSrc(src []byte, opts ugo.CompilerOptions) (bc *ugo.Bytecode, err error, pan any) {
	defer func() {
		if r := recover(); r != nil {
			pan = r
		}
	}()
	bc, err = ugo.Compile(src, opts)
	return
}

var _ = bytes.NewBuffer
