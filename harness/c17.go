package main

import (
	"bytes"
	"encoding/hex"
	"encoding/json"
	"fmt"

	"github.com/ozanh/ugo"
	ujson "github.com/ozanh/ugo/stdlib/json"
)

func hexOrErr(b []byte, err error) *Sexp {
	if err != nil {
		return L(A("err"))
	}
	return L(A("ok"), A("x"+hex.EncodeToString(b)))
}

// canonGo renders a decoded encoding/json value in the uGO value notation
func objOfGo(v any) ugo.Object {
	switch x := v.(type) {
	case nil:
		return ugo.Undefined
	case bool:
		return ugo.Bool(x)
	case float64:
		return ugo.Float(x)
	case string:
		return ugo.String(x)
	case []any:
		arr := ugo.Array{}
		for _, e := range x {
			arr = append(arr, objOfGo(e))
		}
		return arr
	case map[string]any:
		m := ugo.Map{}
		for k, e := range x {
			m[k] = objOfGo(e)
		}
		return m
	}
	return ugo.String(fmt.Sprintf("?%T", v))
}

// (case id jsonmarshal <value>)   : uGO Marshal vs encoding/json on ToInterface(value)
// (case id jsonstr <html 0|1> <hex>) : Marshal of a string (html escaping per EncoderOptions)
// (case id jsondoc <hex>)         : Unmarshal / Valid / Compact / Indent vs encoding/json
func runJSON(kind string, args []*Sexp) *Sexp {
	switch kind {
	case "jsonstr":
		var v ugo.Object = ugo.String(atomBytes(args[1]))
		if args[0].Atom == "0" {
			v = &ujson.EncoderOptions{Value: v, EscapeHTML: false}
		}
		b, err := ujson.Marshal(v)
		if err != nil {
			return L(A("err"))
		}
		return A("x" + hex.EncodeToString(b))
	case "jsonmarshal":
		v := ValueOfSexp(args[0])
		ub, uerr := ujson.Marshal(v)
		gb, gerr := json.Marshal(ugo.ToInterface(v))
		return L(A("marshal"), hexOrErr(ub, uerr), hexOrErr(gb, gerr))
	case "jsondoc":
		doc := atomBytes(args[0])
		uv, uerr := ujson.Unmarshal(doc)
		var gv any
		gerr := json.Unmarshal(doc, &gv)
		ures, gres := L(A("err")), L(A("err"))
		if uerr == nil {
			ures = L(A("ok"), SexpOfValue(uv))
		}
		if gerr == nil {
			gres = L(A("ok"), SexpOfValue(objOfGo(gv)))
		}
		callMod := func(name string, a ...ugo.Object) ugo.Object {
			r, err := ujson.Module[name].(*ugo.Function).Value(a...)
			if err != nil {
				return &ugo.Error{Message: err.Error()}
			}
			return r
		}
		uvalid := callMod("Valid", ugo.Bytes(doc)) == ugo.True
		gvalid := json.Valid(doc)
		var gcb, gib bytes.Buffer
		var ucb, uib bytes.Buffer
		var ucerr, uierr error
		if b, ok := callMod("Compact", ugo.Bytes(doc), ugo.False).(ugo.Bytes); ok {
			ucb.Write(b)
		} else {
			ucerr = fmt.Errorf("error")
		}
		if b, ok := callMod("Indent", ugo.Bytes(doc), ugo.String("p"), ugo.String("  ")).(ugo.Bytes); ok {
			uib.Write(b)
		} else {
			uierr = fmt.Errorf("error")
		}
		gcerr := json.Compact(&gcb, doc)
		gierr := json.Indent(&gib, doc, "p", "  ")
		return L(A("doc"), ures, gres, boolSexp(uvalid), boolSexp(gvalid),
			hexOrErr(ucb.Bytes(), ucerr), hexOrErr(gcb.Bytes(), gcerr), hexOrErr(uib.Bytes(), uierr), hexOrErr(gib.Bytes(), gierr))
	}
	panic("json kind")
}
