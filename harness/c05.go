package main

import (
	"context"
	"encoding/hex"
	"fmt"
	"strconv"
	"strings"

	"github.com/ozanh/ugo"
)

func errClass(err error) string {
	txt := err.Error()
	switch {
	case strings.Contains(txt, "SymbolLimitError"):
		return "symbol-limit"
	case strings.Contains(txt, "MakeInstruction"):
		return "operand-limit"
	case strings.Contains(txt, "Parse Error"):
		return "parse"
	case strings.Contains(txt, "Optimizer Error"):
		return "optimizer"
	case strings.Contains(txt, "Compile Error"):
		return "compile"
	}
	return "other"
}

func bytecodeFns(bc *ugo.Bytecode) *Sexp {
	out := L(A("fns"))
	cfs := L(A("cf"))
	for i, c := range bc.Constants {
		if cf, ok := c.(*ugo.CompiledFunction); ok {
			// free-variable slots the function's own instructions use
			need := 0
			ugo.IterateInstructions(cf.Instructions, func(pos int, op ugo.Opcode, operands []int, offset int) bool {
				if (op == ugo.OpGetFree || op == ugo.OpSetFree || op == ugo.OpGetFreePtr) && operands[0]+1 > need {
					need = operands[0] + 1
				}
				return true
			})
			cfs.List = append(cfs.List, L(A(strconv.Itoa(i)), A(strconv.Itoa(need))))
		}
	}
	add := func(cf *ugo.CompiledFunction) {
		out.List = append(out.List, L(A("x"+hex.EncodeToString(cf.Instructions)), A(strconv.Itoa(len(bc.Constants))),
			A(strconv.Itoa(cf.NumLocals)), A(strconv.Itoa(bc.NumModules)), cfs))
	}
	add(bc.Main)
	for _, c := range bc.Constants {
		if cf, ok := c.(*ugo.CompiledFunction); ok {
			add(cf)
		}
	}
	return out
}

// (case id compile <flags: opt|noopt|limN> <trace 0|1> <mode batch|eval|reuse> <src hex> <module hex>...)
func runCompile(args []*Sexp) (out *Sexp) {
	flag := args[0].Atom
	trace := args[1].Atom == "1"
	mode := args[2].Atom
	src := atomBytes(args[3])
	mm := moduleMapStd()
	for i, a := range args[4:] {
		mm.AddSourceModule("m"+strconv.Itoa(i+1), atomBytes(a))
	}
	opts := ugo.CompilerOptions{ModuleMap: mm}
	switch {
	case flag == "noopt":
		opts.NoOptimize = true
	case strings.HasPrefix(flag, "lim"):
		n, _ := strconv.Atoi(flag[3:])
		opts.OptimizerLimit = n
	}
	if trace {
		opts.Trace = &strings.Builder{}
		opts.TraceParser, opts.TraceCompiler, opts.TraceOptimizer = true, true, true
	}
	defer func() {
		if r := recover(); r != nil {
			out = L(A("panic"), A(sanitize(fmt.Sprint(r))))
		}
	}()
	switch mode {
	case "eval":
		ev := ugo.NewEval(opts, nil)
		_, bc, err := ev.Run(context.Background(), src)
		if bc == nil && err != nil {
			return L(A("err"), A(errClass(err)))
		}
		return L(A("ok"), bytecodeFns(bc))
	case "evalfail", "evalfail2":
		// a session in which an earlier script failed to compile after importing modules; evalfail2: the
		// session already has a module (from a script that compiled and ran) when that happens
		ev := ugo.NewEval(opts, nil)
		if mode == "evalfail2" {
			if _, _, err := ev.Run(context.Background(), []byte("p0 := import(\"vmod\")\np1 := 1")); err != nil {
				return L(A("err"), A("evalfail2-setup"))
			}
		}
		if _, _, err := ev.Run(context.Background(), []byte("q0 := import(\"m1\")\nq1 := import(\"time\")\nq2 := import(\"nosuchmodule\")")); err == nil {
			return L(A("err"), A("evalfail-setup"))
		}
		_, bc, err := ev.Run(context.Background(), src)
		if bc == nil && err != nil {
			return L(A("err"), A(errClass(err)))
		}
		return L(A("ok"), bytecodeFns(bc))
	case "reuse":
		st := ugo.NewSymbolTable()
		opts.SymbolTable = st
		if _, err := ugo.Compile([]byte("zz := \"pad\"\nglobal gg\nyy := func() { return [zz, gg] }"), opts); err != nil {
			return L(A("err"), A("reuse-setup"))
		}
	}
	bc, err := ugo.Compile(src, opts)
	if err != nil {
		return L(A("err"), A(errClass(err)))
	}
	return L(A("ok"), bytecodeFns(bc))
}

// (case id lexenum <alphabet hex> <maxlen> <prefix hex>) -> (lexenum <count> <panics> (<input hex> <message>)...)
// compiles every byte string prefix+w, w over the alphabet with length 0..maxlen; reports the inputs on which Compile panics
func runLexEnum(args []*Sexp) *Sexp {
	alpha := atomBytes(args[0])
	maxlen := int(atomInt(args[1]))
	prefix := atomBytes(args[2])
	count, panics := 0, 0
	out := L(A("lexenum"))
	var found []*Sexp
	try := func(src []byte) {
		count++
		defer func() {
			if r := recover(); r != nil {
				panics++
				if len(found) < 5 {
					found = append(found, L(A("x"+hex.EncodeToString(src)), A(sanitize(fmt.Sprint(r)))))
				}
			}
		}()
		_, _ = ugo.Compile(src, ugo.CompilerOptions{NoOptimize: true})
	}
	var rec func(cur []byte, left int)
	rec = func(cur []byte, left int) {
		try(append([]byte(nil), cur...))
		if left == 0 {
			return
		}
		for _, b := range alpha {
			rec(append(cur, b), left-1)
		}
	}
	rec(append([]byte(nil), prefix...), maxlen)
	out.List = append(out.List, A(strconv.Itoa(count)), A(strconv.Itoa(panics)))
	out.List = append(out.List, found...)
	return out
}
