package main

import (
	"bytes"
	"encoding/hex"
	"fmt"

	"github.com/ozanh/ugo"
	"github.com/ozanh/ugo/encoder"
	"github.com/ozanh/ugo/encoder/opv1"
)

func isJumpClass(op byte) bool {
	switch op {
	case ugo.OpJump, ugo.OpJumpFalsy, ugo.OpAndJump, ugo.OpOrJump, ugo.OpSetupTry:
		return true
	}
	return false
}

// narrowToV1 rewrites version 2 instructions into the version 1 layout (2-byte jump and try
// operands, targets expressed in v1 offsets).  Independent of the converter under test.
func narrowToV1(cf *ugo.CompiledFunction) (insts []byte, srcmap map[int]int, ok bool) {
	v2 := cf.Instructions
	// v2 offset -> v1 offset for instruction boundaries
	old := map[int]int{}
	n2, n1 := 0, 0
	for n2 < len(v2) {
		old[n2] = n1
		op := v2[n2]
		w := 0
		for _, x := range ugo.OpcodeOperands[op] {
			w += x
		}
		w1 := 0
		for _, x := range opv1.OpcodeOperands[op] {
			w1 += x
		}
		n2 += 1 + w
		n1 += 1 + w1
	}
	old[n2] = n1
	operands := make([]int, 0, 4)
	for i := 0; i < len(v2); {
		op := v2[i]
		operands, off := ugo.ReadOperands(ugo.OpcodeOperands[op], v2[i+1:], operands[:0])
		insts = append(insts, op)
		if isJumpClass(op) {
			for _, t := range operands {
				t1, found := old[t]
				if !found || t1 > 0xffff {
					return nil, nil, false
				}
				insts = append(insts, byte(t1>>8), byte(t1))
			}
		} else {
			insts = append(insts, v2[i+1:i+1+off]...)
		}
		i += 1 + off
	}
	srcmap = map[int]int{}
	for k, v := range cf.SourceMap {
		k1, found := old[k]
		if !found {
			return nil, nil, false
		}
		srcmap[k1] = v
	}
	return insts, srcmap, true
}

func copyFn(cf *ugo.CompiledFunction) *ugo.CompiledFunction {
	c := *cf
	return &c
}

// runC11: (case id v1prog <src hex>)
func runC11(kind string, args []*Sexp) *Sexp {
	src := atomBytes(args[0])
	bc, err, pan := compileSrc(src, ugo.CompilerOptions{})
	if pan != nil {
		return L(A("compile-panic"))
	}
	if err != nil {
		return L(A("compile-error"))
	}
	orig := runBytecode(bc, nil)
	// build the v1 twin
	v1 := &ugo.Bytecode{FileSet: bc.FileSet, NumModules: bc.NumModules}
	type fnrec struct{ v1i []byte; v1m map[int]int; orig *ugo.CompiledFunction }
	var recs []fnrec
	conv := func(cf *ugo.CompiledFunction) *ugo.CompiledFunction {
		i1, m1, ok := narrowToV1(cf)
		if !ok {
			return nil
		}
		c := copyFn(cf)
		c.Instructions, c.SourceMap = i1, m1
		recs = append(recs, fnrec{i1, m1, cf})
		return c
	}
	v1.Main = conv(bc.Main)
	if v1.Main == nil {
		return L(A("not-representable-in-v1"))
	}
	for _, c := range bc.Constants {
		if cf, ok := c.(*ugo.CompiledFunction); ok {
			n := conv(cf)
			if n == nil {
				return L(A("not-representable-in-v1"))
			}
			v1.Constants = append(v1.Constants, n)
		} else {
			v1.Constants = append(v1.Constants, c)
		}
	}
	var buf bytes.Buffer
	if err := encoder.EncodeBytecodeTo(v1, &buf); err != nil {
		return L(A("encode-error"), A(sanitize(err.Error())))
	}
	data := buf.Bytes()
	data[4], data[5] = 0, 1 // version 1 header
	var dec *ugo.Bytecode
	var derr error
	func() {
		defer func() {
			if r := recover(); r != nil {
				derr = fmt.Errorf("panic: %v", r)
			}
		}()
		dec, derr = encoder.DecodeBytecodeFrom(bytes.NewReader(data), nil)
	}()
	if derr != nil {
		return L(A("decode-error"), A(sanitize(derr.Error())))
	}
	got := runBytecode(dec, nil)
	// per function artefacts: v1 input, converter output
	fns := L(A("fns"))
	decFns := []*ugo.CompiledFunction{dec.Main}
	for _, c := range dec.Constants {
		if cf, ok := c.(*ugo.CompiledFunction); ok {
			decFns = append(decFns, cf)
		}
	}
	same := "1"
	for i, r := range recs {
		if i >= len(decFns) {
			same = "0"
			break
		}
		d := decFns[i]
		if !bytes.Equal(d.Instructions, r.orig.Instructions) || srcMapSexp(d.SourceMap).String() != srcMapSexp(r.orig.SourceMap).String() {
			same = "0"
		}
		fns.List = append(fns.List, L(A("fn"), A("x"+hex.EncodeToString(r.v1i)), srcMapSexp(r.v1m),
			A("x"+hex.EncodeToString(d.Instructions)), srcMapSexp(d.SourceMap)))
	}
	return L(A("v1prog"), L(A("orig"), orig), L(A("v1"), got), L(A("same"), A(same)), fns)
}

// (case id v1mut <src hex>): structure-aware corruption of version 1 instruction streams:
// the instructions of every function are truncated / have opcodes and operands replaced, the
// Bytecode is re-encoded with consistent sizes and a version 1 header and decoded under recover.
func runV1Mut(args []*Sexp) *Sexp {
	src := atomBytes(args[0])
	bc, err, pan := compileSrc(src, ugo.CompilerOptions{})
	if pan != nil || err != nil {
		return L(A("compile-error"))
	}
	var fns []*ugo.CompiledFunction
	fns = append(fns, bc.Main)
	for _, c := range bc.Constants {
		if cf, ok := c.(*ugo.CompiledFunction); ok {
			fns = append(fns, cf)
		}
	}
	total, panics := 0, 0
	bad := L(A("bad"))
	sample := L(A("sample"))
	try := func(target int, insts []byte, srcmap map[int]int) {
		v1 := &ugo.Bytecode{FileSet: bc.FileSet, NumModules: bc.NumModules}
		idx := 0
		mk := func(cf *ugo.CompiledFunction) *ugo.CompiledFunction {
			c := copyFn(cf)
			if idx == target {
				c.Instructions, c.SourceMap = insts, srcmap
			} else if i1, m1, ok := narrowToV1(cf); ok {
				c.Instructions, c.SourceMap = i1, m1
			}
			idx++
			return c
		}
		v1.Main = mk(bc.Main)
		for _, c := range bc.Constants {
			if cf, ok := c.(*ugo.CompiledFunction); ok {
				v1.Constants = append(v1.Constants, mk(cf))
			} else {
				v1.Constants = append(v1.Constants, c)
			}
		}
		var buf bytes.Buffer
		if err := encoder.EncodeBytecodeTo(v1, &buf); err != nil {
			return
		}
		data := buf.Bytes()
		data[4], data[5] = 0, 1
		total++
		class := "ok"
		func() {
			defer func() {
				if r := recover(); r != nil {
					class = "panic"
				}
			}()
			if _, err := encoder.DecodeBytecodeFrom(bytes.NewReader(data), nil); err != nil {
				class = "err"
			}
		}()
		if class == "panic" {
			panics++
			if len(bad.List) < 6 {
				bad.List = append(bad.List, A("x"+hex.EncodeToString(insts)))
			}
		}
		if total%7 == 0 && len(sample.List) < 400 {
			sample.List = append(sample.List, L(A("x"+hex.EncodeToString(insts)), srcMapSexp(srcmap), A(class)))
		}
	}
	for t, cf := range fns {
		i1, m1, ok := narrowToV1(cf)
		if !ok || len(i1) == 0 {
			continue
		}
		// truncations
		for k := 1; k <= 4 && k < len(i1); k++ {
			try(t, append([]byte(nil), i1[:len(i1)-k]...), m1)
		}
		// opcode replacement at every instruction start, operand replacement at jump-class ones
		for i := 0; i < len(i1); {
			op := i1[i]
			if int(op) >= len(opv1.OpcodeOperands) {
				break
			}
			w := 0
			for _, x := range opv1.OpcodeOperands[op] {
				w += x
			}
			for _, nop := range []byte{ugo.OpJump, ugo.OpJumpFalsy, ugo.OpAndJump, ugo.OpOrJump, ugo.OpSetupTry, ugo.OpConstant, ugo.OpCall, ugo.OpPop, ugo.OpClosure, ugo.OpLoadModule, 44, 45, 100, 255} {
				if nop == op {
					continue
				}
				m := append([]byte(nil), i1...)
				m[i] = nop
				try(t, m, m1)
			}
			if isJumpClass(op) && w >= 2 {
				for _, v := range [][2]byte{{0, 0}, {0xff, 0xff}, {byte(len(i1) >> 8), byte(len(i1))}, {byte((len(i1) + 1) >> 8), byte(len(i1) + 1)}, {0, 1}} {
					m := append([]byte(nil), i1...)
					m[i+1], m[i+2] = v[0], v[1]
					try(t, m, m1)
				}
			}
			i += 1 + w
		}
	}
	return L(A("v1mut"), A(fmt.Sprint(total)), A(fmt.Sprint(panics)), bad, sample)
}
