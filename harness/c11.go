package main

import (
	"bytes"
	"encoding/hex"
	"fmt"

	"github.com/ozanh/ugo"
	"github.com/ozanh/ugo/encoder"
	"github.com/ozanh/ugo/encoder/opv1"
)

func isJumpClass(op byte) bool {
	switch op {
	case ugo.OpJump, ugo.OpJumpFalsy, ugo.OpAndJump, ugo.OpOrJump, ugo.OpSetupTry:
		return true
	}
	return false
}

// narrowToV1 rewrites version 2 instructions into the version 1 layout (2-byte jump and try
// operands, targets expressed in v1 offsets).  Independent of the converter under test.
func narrowToV1(cf *ugo.CompiledFunction) (insts []byte, srcmap map[int]int, ok bool) {
	v2 := cf.Instructions
	// v2 offset -> v1 offset for instruction boundaries
	old := map[int]int{}
	n2, n1 := 0, 0
	for n2 < len(v2) {
		old[n2] = n1
		op := v2[n2]
		w := 0
		for _, x := range ugo.OpcodeOperands[op] {
			w += x
		}
		w1 := 0
		for _, x := range opv1.OpcodeOperands[op] {
			w1 += x
		}
		n2 += 1 + w
		n1 += 1 + w1
	}
	old[n2] = n1
	operands := make([]int, 0, 4)
	for i := 0; i < len(v2); {
		op := v2[i]
		operands, off := ugo.ReadOperands(ugo.OpcodeOperands[op], v2[i+1:], operands[:0])
		insts = append(insts, op)
		if isJumpClass(op) {
			for _, t := range operands {
				t1, found := old[t]
				if !found || t1 > 0xffff {
					return nil, nil, false
				}
				insts = append(insts, byte(t1>>8), byte(t1))
			}
		} else {
			insts = append(insts, v2[i+1:i+1+off]...)
		}
		i += 1 + off
	}
	srcmap = map[int]int{}
	for k, v := range cf.SourceMap {
		k1, found := old[k]
		if !found {
			return nil, nil, false
		}
		srcmap[k1] = v
	}
	return insts, srcmap, true
}

func copyFn(cf *ugo.CompiledFunction) *ugo.CompiledFunction {
	c := *cf
	return &c
}

// runC11: (case id v1prog <src hex>)
func runC11(kind string, args []*Sexp) *Sexp {
	src := atomBytes(args[0])
	bc, err, pan := compileSrc(src, ugo.CompilerOptions{})
	if pan != nil {
		return L(A("compile-panic"))
	}
	if err != nil {
		return L(A("compile-error"))
	}
	orig := runBytecode(bc, nil)
	// build the v1 twin
	v1 := &ugo.Bytecode{FileSet: bc.FileSet, NumModules: bc.NumModules}
	type fnrec struct{ v1i []byte; v1m map[int]int; orig *ugo.CompiledFunction }
	var recs []fnrec
	conv := func(cf *ugo.CompiledFunction) *ugo.CompiledFunction {
		i1, m1, ok := narrowToV1(cf)
		if !ok {
			return nil
		}
		c := copyFn(cf)
		c.Instructions, c.SourceMap = i1, m1
		recs = append(recs, fnrec{i1, m1, cf})
		return c
	}
	v1.Main = conv(bc.Main)
	if v1.Main == nil {
		return L(A("not-representable-in-v1"))
	}
	for _, c := range bc.Constants {
		if cf, ok := c.(*ugo.CompiledFunction); ok {
			n := conv(cf)
			if n == nil {
				return L(A("not-representable-in-v1"))
			}
			v1.Constants = append(v1.Constants, n)
		} else {
			v1.Constants = append(v1.Constants, c)
		}
	}
	var buf bytes.Buffer
	if err := encoder.EncodeBytecodeTo(v1, &buf); err != nil {
		return L(A("encode-error"), A(sanitize(err.Error())))
	}
	data := buf.Bytes()
	data[4], data[5] = 0, 1 // version 1 header
	var dec *ugo.Bytecode
	var derr error
	func() {
		defer func() {
			if r := recover(); r != nil {
				derr = fmt.Errorf("panic: %v", r)
			}
		}()
		dec, derr = encoder.DecodeBytecodeFrom(bytes.NewReader(data), nil)
	}()
	if derr != nil {
		return L(A("decode-error"), A(sanitize(derr.Error())))
	}
	got := runBytecode(dec, nil)
	// per function artefacts: v1 input, converter output
	fns := L(A("fns"))
	decFns := []*ugo.CompiledFunction{dec.Main}
	for _, c := range dec.Constants {
		if cf, ok := c.(*ugo.CompiledFunction); ok {
			decFns = append(decFns, cf)
		}
	}
	same := "1"
	for i, r := range recs {
		if i >= len(decFns) {
			same = "0"
			break
		}
		d := decFns[i]
		if !bytes.Equal(d.Instructions, r.orig.Instructions) || srcMapSexp(d.SourceMap).String() != srcMapSexp(r.orig.SourceMap).String() {
			same = "0"
		}
		fns.List = append(fns.List, L(A("fn"), A("x"+hex.EncodeToString(r.v1i)), srcMapSexp(r.v1m),
			A("x"+hex.EncodeToString(d.Instructions)), srcMapSexp(d.SourceMap)))
	}
	return L(A("v1prog"), L(A("orig"), orig), L(A("v1"), got), L(A("same"), A(same)), fns)
}
