package main

import (
	"bytes"
	"encoding/hex"
	"fmt"
	"math"
	"strconv"
	"time"

	"github.com/ozanh/ugo"
	"github.com/ozanh/ugo/encoder"
	ugotime "github.com/ozanh/ugo/stdlib/time"
)

// codec values: like ValueOfSexp but floats are raw bits and functions are encodable kinds
func cvalOfSexp(s *Sexp) ugo.Object {
	switch s.Head() {
	case "f":
		v, err := strconv.ParseUint(s.List[1].Atom, 16, 64)
		if err != nil {
			panic(err)
		}
		return ugo.Float(math.Float64frombits(v))
	case "a":
		arr := make(ugo.Array, 0, len(s.List)-1)
		for _, x := range s.List[1:] {
			arr = append(arr, cvalOfSexp(x))
		}
		return arr
	case "m":
		m := make(ugo.Map, len(s.List)-1)
		for _, kv := range s.List[1:] {
			m[string(atomBytes(kv.List[0]))] = cvalOfSexp(kv.List[1])
		}
		return m
	case "sm":
		if len(s.List) == 2 && s.List[1].IsAtom && s.List[1].Atom == "nil" {
			return &ugo.SyncMap{}
		}
		m := make(ugo.Map, len(s.List)-1)
		for _, kv := range s.List[1:] {
			m[string(atomBytes(kv.List[0]))] = cvalOfSexp(kv.List[1])
		}
		return &ugo.SyncMap{Value: m}
	case "fn":
		return &ugo.Function{Name: string(atomBytes(s.List[1]))}
	case "bfn":
		return ugo.BuiltinObjects[ugo.BuiltinsMap[string(atomBytes(s.List[1]))]]
	case "cf":
		cf := &ugo.CompiledFunction{NumParams: int(atomInt(s.List[1])), NumLocals: int(atomInt(s.List[2])), Variadic: s.List[4].Atom == "1"}
		if !(s.List[3].IsAtom && s.List[3].Atom == "nil") {
			cf.Instructions = atomBytes(s.List[3])
			if cf.Instructions == nil {
				cf.Instructions = []byte{}
			}
		}
		if !s.List[5].IsAtom {
			cf.SourceMap = map[int]int{}
			for _, kv := range s.List[5].List[1:] {
				cf.SourceMap[int(atomInt(kv.List[0]))] = int(atomInt(kv.List[1]))
			}
		}
		return cf
	}
	return ValueOfSexp(s)
}

func sexpOfCval(o ugo.Object) *Sexp {
	switch v := o.(type) {
	case ugo.Float:
		return L(A("f"), A(fmt.Sprintf("%016x", math.Float64bits(float64(v)))))
	case ugo.Array:
		out := L(A("a"))
		for _, x := range v {
			out.List = append(out.List, sexpOfCval(x))
		}
		return out
	case ugo.Map:
		out := L(A("m"))
		for _, k := range sortedKeys(v) {
			out.List = append(out.List, L(hexAtom([]byte(k)), sexpOfCval(v[k])))
		}
		return out
	case *ugo.SyncMap:
		if v.Value == nil {
			return L(A("sm"), A("nil"))
		}
		out := L(A("sm"))
		for _, k := range sortedKeys(v.Value) {
			out.List = append(out.List, L(hexAtom([]byte(k)), sexpOfCval(v.Value[k])))
		}
		return out
	case *ugo.Function:
		return L(A("fn"), hexAtom([]byte(v.Name)))
	case *ugo.BuiltinFunction:
		return L(A("bfn"), hexAtom([]byte(v.Name)))
	case *ugo.CompiledFunction:
		insts := A("nil")
		if v.Instructions != nil {
			insts = A("x" + hex.EncodeToString(v.Instructions))
		}
		var sm *Sexp = A("nil")
		if v.SourceMap != nil {
			sm = srcMapSexp(v.SourceMap)
		}
		variadic := "0"
		if v.Variadic {
			variadic = "1"
		}
		return L(A("cf"), A(strconv.Itoa(v.NumParams)), A(strconv.Itoa(v.NumLocals)), insts, A(variadic), sm)
	}
	return SexpOfValue(o)
}

func runC04(kind string, args []*Sexp) *Sexp {
	switch kind {
	case "enc":
		o := cvalOfSexp(args[0])
		var buf bytes.Buffer
		// the encoding used for constants: an array element is encoded by marshaler(o)
		data, err := encoder.Array{o}.MarshalBinary()
		if err != nil {
			return L(A("err"), A(sanitize(err.Error())))
		}
		// strip the array wrapper: tag, size varint, length varint
		rd := data[1:]
		n := int(rd[0])
		rd = rd[1+n:]
		n = int(rd[0])
		rd = rd[1+n:]
		buf.Write(rd)
		return L(A("ok"), A("x"+hex.EncodeToString(buf.Bytes())))
	case "dec":
		data := atomBytes(args[0])
		rd := bytes.NewReader(data)
		o, err := encoder.DecodeObject(rd)
		if err != nil {
			return L(A("err"))
		}
		return L(A("ok"), sexpOfCval(o), A(strconv.Itoa(rd.Len())))
	}
	panic("c04 bad kind")
}

func outcomeWithTrace(bc *ugo.Bytecode) *Sexp {
	vm := ugo.NewVM(bc)
	out := runVM(vm, nil)
	return out
}

func traceOf(bc *ugo.Bytecode) string {
	_, err := ugo.NewVM(bc).Run(nil)
	if err == nil {
		return ""
	}
	return sanitize(fmt.Sprintf("%+v", err))
}

// (case id encprog <src hex> [<module src hex>...])
// gmod: a builtin module whose values have no native encoding (gob fallback), several of one Go type
// in one map, directly and nested
func gmodAttrs() map[string]ugo.Object {
	ea := &ugo.Error{Name: "ErrA", Message: "a"}
	eb := &ugo.Error{Name: "ErrB", Message: "b"}
	rt := &ugo.RuntimeError{Err: &ugo.Error{Name: "ErrR", Message: "r"}}
	t1 := &ugotime.Time{Value: time.Date(2020, 2, 3, 4, 5, 6, 7, time.UTC)}
	t2 := &ugotime.Time{Value: time.Date(2021, 3, 4, 5, 6, 7, 8, time.UTC)}
	return map[string]ugo.Object{
		"errA": ea, "errB": eb, "rt": rt, "t1": t1, "t2": t2, "n": ugo.Int(3),
		"errs":  ugo.Map{"x": ea, "y": eb, "z": &ugo.Error{Name: "ErrZ", Message: "z"}},
		"times": ugo.Array{t1, t2, t1},
		"mixed": &ugo.SyncMap{Value: ugo.Map{"e": eb, "t": t2, "r": rt, "m": ugo.Map{"e1": ea, "e2": eb}}},
	}
}

func runEncProg(args []*Sexp) *Sexp {
	mm := moduleMapStd()
	mm.AddBuiltinModule("gmod", gmodAttrs())
	for i, a := range args[1:] {
		mm.AddSourceModule(fmt.Sprintf("m%d", i+1), atomBytes(a))
	}
	bc, err, pan := compileSrc(atomBytes(args[0]), ugo.CompilerOptions{ModuleMap: mm})
	if pan != nil {
		return L(A("compile-panic"))
	}
	if err != nil {
		return L(A("compile-error"))
	}
	o1 := outcomeWithTrace(bc)
	t1 := traceOf(bc)
	var b1 bytes.Buffer
	if err := encoder.EncodeBytecodeTo(bc, &b1); err != nil {
		return L(A("encode-error"), A(sanitize(err.Error())))
	}
	bc2, err := encoder.DecodeBytecodeFrom(bytes.NewReader(b1.Bytes()), mm)
	if err != nil {
		return L(A("decode-error"), A(sanitize(err.Error())))
	}
	o2 := outcomeWithTrace(bc2)
	t2 := traceOf(bc2)
	var b2 bytes.Buffer
	if err := encoder.EncodeBytecodeTo(bc2, &b2); err != nil {
		return L(A("encode-error-2"), A(sanitize(err.Error())))
	}
	bc3, err := encoder.DecodeBytecodeFrom(bytes.NewReader(b2.Bytes()), mm)
	if err != nil {
		return L(A("decode-error-2"), A(sanitize(err.Error())))
	}
	o3 := outcomeWithTrace(bc3)
	t3 := traceOf(bc3)
	same := "1"
	if t1 != t2 || t2 != t3 {
		same = "0"
	}
	return L(A("encprog"), o1, o2, o3, L(A("traces-equal"), A(same)), A(t1), A(t2), A(fmt.Sprint(b1.Len())))
}
