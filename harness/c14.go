package main

import (
	"strconv"
	"fmt"
	"strings"

	"github.com/ozanh/ugo"
)

func paramList(n int, variadic bool) (decl string, names []string) {
	for i := 0; i < n; i++ {
		names = append(names, fmt.Sprintf("a%d", i))
	}
	parts := append([]string(nil), names...)
	if variadic && n > 0 {
		parts[n-1] = "..." + parts[n-1]
	}
	return strings.Join(parts, ", "), names
}

// (case id callbind <nparams> <variadic 0|1> <spread 0|1> <how script|run|invoke> v...)
// binds the argument values to a function with nparams parameters and returns the parameter values.
func runCallBind(args []*Sexp) *Sexp {
	np := int(atomInt(args[0]))
	variadic := args[1].Atom == "1"
	spread := args[2].Atom == "1"
	how := args[3].Atom
	var vals []ugo.Object
	for _, a := range args[4:] {
		vals = append(vals, ValueOfSexp(a))
	}
	decl, names := paramList(np, variadic)
	ret := "[" + strings.Join(names, ", ") + "]"
	switch how {
	case "script":
		var xs []string
		for i := range vals {
			xs = append(xs, fmt.Sprintf("x%d", i))
		}
		call := append([]string(nil), xs...)
		if spread && len(call) > 0 {
			call[len(call)-1] = "..." + call[len(call)-1]
		}
		src := ""
		if len(xs) > 0 {
			src += "param (" + strings.Join(xs, ", ") + ")\n"
		}
		src += "f := func(" + decl + ") { return " + ret + " }\nreturn f(" + strings.Join(call, ", ") + ")\n"
		bc, err, pan := compileSrc([]byte(src), ugo.CompilerOptions{})
		if pan != nil || err != nil {
			return L(A("compile-error"), A(sanitize(fmt.Sprint(err, pan))))
		}
		return runBytecode(bc, nil, vals...)
	case "run":
		src := ""
		if np > 0 {
			src += "param (" + decl + ")\n"
		}
		src += "return " + ret + "\n"
		bc, err, pan := compileSrc([]byte(src), ugo.CompilerOptions{})
		if pan != nil || err != nil {
			return L(A("compile-error"), A(sanitize(fmt.Sprint(err, pan))))
		}
		return runBytecode(bc, nil, vals...)
	case "invoke":
		src := "return func(" + decl + ") { return " + ret + " }\n"
		bc, err, pan := compileSrc([]byte(src), ugo.CompilerOptions{})
		if pan != nil || err != nil {
			return L(A("compile-error"))
		}
		vm := ugo.NewVM(bc)
		fn, err := vm.Run(nil)
		if err != nil {
			return errSexp(err)
		}
		inv := ugo.NewInvoker(vm, fn)
		inv.Acquire()
		defer inv.Release()
		v, err := inv.Invoke(vals...)
		if err != nil {
			return errSexp(err)
		}
		return L(A("ok"), SexpOfValue(v))
	}
	panic("callbind how")
}

// invokeGlobals returns globals with Go callbacks that call script functions through Invokers.
func invokeGlobals(pooled bool) ugo.Map {
	return invokeGlobalsKept(pooled, false)
}

// kept: one Invoker per script function for the whole run (its child VM is re-used by every call)
// cycledInvokers: a kept Invoker is acquired before and released after every call (Acquire / Invoke / Release
// repeated on one Invoker object), every third call is made without Acquire after the Release
var cycledInvokers bool

func invokeGlobalsKept(pooled, kept bool) ugo.Map {
	m := invokeGlobalsKept0(pooled, kept)
	// a host function that panics: a script function which catches it behaves the same on a child VM
	m["gopanic"] = &ugo.Function{Name: "gopanic", Value: func(args ...ugo.Object) (ugo.Object, error) {
		panic(fmt.Sprintf("host panic %v", args))
	}}
	return m
}

func invokeGlobalsKept0(pooled, kept bool) ugo.Map {
	invokers := map[ugo.Object]*ugo.Invoker{}
	// the host re-uses one argument buffer for all its Invoke calls: the callee must not keep or
	// write through it
	argbuf := make([]ugo.Object, 0, 16)
	ncalls := 0
	var rootVM *ugo.VM
	if kept {
		return ugo.Map{
			"invoke": &ugo.Function{Name: "invoke", ValueEx: func(c ugo.Call) (ugo.Object, error) {
				if c.Len() < 1 {
					return ugo.Undefined, ugo.ErrWrongNumArguments
				}
				fn := c.Get(0)
				args := argbuf[:0]
				for i := 1; i < c.Len(); i++ {
					args = append(args, c.Get(i))
				}
				inv := invokers[fn]
				if rootVM == nil {
					rootVM = c.VM() // the first call comes from the main script
				}
				if inv == nil {
					vm := c.VM()
					if cycledInvokers {
						// child VMs are released during the run: a kept Invoker must not refer to one
						vm = rootVM
					}
					inv = ugo.NewInvoker(vm, fn)
					if pooled && !cycledInvokers {
						inv.Acquire()
					}
					invokers[fn] = inv
				}
				if cycledInvokers {
					ncalls++
					if ncalls%3 != 0 {
						inv.Acquire()
						defer inv.Release()
					}
				}
				return inv.Invoke(args...)
			}},
		}
	}
	return ugo.Map{
		"invoke": &ugo.Function{Name: "invoke", ValueEx: func(c ugo.Call) (ugo.Object, error) {
			if c.Len() < 1 {
				return ugo.Undefined, ugo.ErrWrongNumArguments
			}
			fn := c.Get(0)
			args := argbuf[:0]
			for i := 1; i < c.Len(); i++ {
				args = append(args, c.Get(i))
			}
			inv := ugo.NewInvoker(c.VM(), fn)
			if pooled {
				inv.Acquire()
				defer inv.Release()
			}
			return inv.Invoke(args...)
		}},
	}
}

func callLine(fname string, args []string, viaInvoke bool) string {
	call := fname + "(" + strings.Join(args, ", ") + ")"
	if viaInvoke {
		call = "invoke(" + strings.Join(append([]string{fname}, args...), ", ") + ")"
	}
	return "try { out = append(out, [\"ok\", " + call + "]) } catch e { out = append(out, [\"err\", string(e)]) }\n"
}

// (case id invoketwin <mode> <defs hex> (seq (fname arg...)...) <module hex>...)
func runInvokeTwin(args []*Sexp) *Sexp {
	mode := args[0].Atom
	defs := string(atomBytes(args[1]))
	seq := args[2].List[1:]
	mm := moduleMapStd()
	for i, a := range args[3:] {
		mm.AddSourceModule(fmt.Sprintf("m%d", i+1), atomBytes(a))
	}
	opts := ugo.CompilerOptions{ModuleMap: mm}
	callArgs := func(s *Sexp) []string {
		var out []string
		for _, a := range s.List[1:] {
			out = append(out, a.Atom)
		}
		return out
	}
	switch mode {
	case "direct", "callback-pooled", "callback-unpooled", "callback-kept-pooled", "callback-kept-unpooled", "callback-kept-cycled-pooled", "callback-pooled-after-abort":
		cycledInvokers = strings.Contains(mode, "cycled")
		defer func() { cycledInvokers = false }()
		src := "global (invoke, gopanic)\nout := []\n" + defs
		for _, s := range seq {
			src += callLine(s.List[0].Atom, callArgs(s), mode != "direct")
		}
		src += "return [out, state()]\n"
		bc, err, pan := compileSrc([]byte(src), opts)
		if pan != nil || err != nil {
			return L(A("compile-error"), A(sanitize(fmt.Sprint(err, pan))))
		}
		if strings.Contains(mode, "after-abort") {
			// another VM was aborted by its host while pooled child VMs ran callbacks for it (they go back to
			// the pool); the calls compared here are made afterwards, on the same goroutine
			for k := 0; k < 4; k++ {
				pbc, perr, ppan := compileSrc([]byte("global (invoke, stop)\nvar f\nf = func(n) { if n > 0 { return invoke(f, n - 1) }; stop(); return 1 }\nreturn invoke(f, "+strconv.Itoa(k)+")\n"), opts)
				if perr != nil || ppan != nil {
					return L(A("compile-error"), A(sanitize(fmt.Sprint(perr, ppan))))
				}
				a := ugo.NewVM(pbc).SetRecover(true)
				g := invokeGlobalsKept(true, false)
				g["stop"] = &ugo.Function{Name: "stop", Value: func(args ...ugo.Object) (ugo.Object, error) {
					a.Abort()
					return ugo.Undefined, nil
				}}
				_, _ = a.Run(g)
			}
		}
		return runVM(ugo.NewVM(bc).SetRecover(true), invokeGlobalsKept(strings.Contains(mode, "-pooled"), strings.Contains(mode, "kept")))
	case "post-pooled", "post-unpooled":
		names := map[string]bool{}
		for _, s := range seq {
			names[s.List[0].Atom] = true
		}
		src := "global (invoke, gopanic)\nout := []\n" + defs + "return {state: state"
		for n := range names {
			src += ", " + n + ": " + n
		}
		src += "}\n"
		bc, err, pan := compileSrc([]byte(src), opts)
		if pan != nil || err != nil {
			return L(A("compile-error"), A(sanitize(fmt.Sprint(err, pan))))
		}
		vm := ugo.NewVM(bc).SetRecover(true)
		ret, err := vm.Run(invokeGlobals(true))
		if err != nil {
			return errSexp(err)
		}
		fns := ret.(ugo.Map)
		out := ugo.Array{}
		call := func(fn ugo.Object, argv []ugo.Object) (ugo.Object, error) {
			inv := ugo.NewInvoker(vm, fn)
			if mode == "post-pooled" {
				inv.Acquire()
				defer inv.Release()
			}
			return inv.Invoke(argv...)
		}
		argbuf := make([]ugo.Object, 0, 16)
		for _, s := range seq {
			argv := argbuf[:0]
			for _, a := range callArgs(s) {
				n, perr := parseIntLit(a)
				if perr != nil {
					return L(A("bad-arg"), A(a))
				}
				argv = append(argv, n)
			}
			v, err := call(fns[s.List[0].Atom], argv)
			if err != nil {
				out = append(out, ugo.Array{ugo.String("err"), ugo.String(errString(err))})
			} else {
				out = append(out, ugo.Array{ugo.String("ok"), v})
			}
		}
		st, err := call(fns["state"], nil)
		if err != nil {
			return errSexp(err)
		}
		return L(A("ok"), SexpOfValue(ugo.Array{out, st}))
	}
	panic("invoketwin mode")
}

func parseIntLit(a string) (ugo.Object, error) {
	var n int64
	_, err := fmt.Sscanf(a, "%d", &n)
	return ugo.Int(n), err
}

// errString renders an error the way string(e) does inside a script.
func errString(err error) string {
	switch e := err.(type) {
	case *ugo.RuntimeError:
		return e.Err.String()
	case *ugo.Error:
		return e.String()
	}
	return "error: " + err.Error()
}
