package main

import (
	"encoding/hex"
	"fmt"
	"math"
	"sort"
	"strconv"
	"strings"

	"github.com/ozanh/ugo"
)

func hexAtom(b []byte) *Sexp { return A("x" + hex.EncodeToString(b)) }

func atomBytes(a *Sexp) []byte {
	if !a.IsAtom || len(a.Atom) == 0 || a.Atom[0] != 'x' {
		panic("bad bstr atom: " + a.String())
	}
	b, err := hex.DecodeString(a.Atom[1:])
	if err != nil {
		panic(err)
	}
	return b
}

func atomInt(a *Sexp) int64 {
	v, err := strconv.ParseInt(a.Atom, 10, 64)
	if err != nil {
		panic(err)
	}
	return v
}

func atomUint(a *Sexp) uint64 {
	v, err := strconv.ParseUint(a.Atom, 10, 64)
	if err != nil {
		panic(err)
	}
	return v
}

func atomFloat(a *Sexp) float64 {
	v, err := strconv.ParseUint(a.Atom, 16, 64)
	if err != nil {
		panic(err)
	}
	return math.Float64frombits(v)
}

// canonical NaN so that payload bits never take part in a comparison
func floatAtom(f float64) *Sexp {
	bits := math.Float64bits(f)
	if f != f {
		bits = 0x7ff8000000000001
	}
	return A(fmt.Sprintf("%016x", bits))
}

// opaqueFn is the callable used for (fn ...) values.
type namedFn struct {
	ugo.ObjectImpl
	id string
}

func (f *namedFn) TypeName() string { return "function" }
func (f *namedFn) String() string   { return "<fn " + f.id + ">" }
func (f *namedFn) CanCall() bool    { return true }
func (f *namedFn) Call(args ...ugo.Object) (ugo.Object, error) {
	return ugo.Undefined, nil
}

var fnTable = map[string]*ugo.Function{}

// pointer identities of error values, per case (reset by resetIdentities)
var errTable = map[int64]*ugo.Error{}
var rtErrTable = map[int64]*ugo.RuntimeError{}

func resetIdentities() {
	errTable = map[int64]*ugo.Error{}
	rtErrTable = map[int64]*ugo.RuntimeError{}
}

func getErr(id int64, name, msg string) *ugo.Error {
	if e, ok := errTable[id]; ok {
		return e
	}
	e := &ugo.Error{Name: name, Message: msg}
	errTable[id] = e
	return e
}

func errID(e *ugo.Error) int64 {
	for id, x := range errTable {
		if x == e {
			return id
		}
	}
	return 0
}

func rtErrID(e *ugo.RuntimeError) int64 {
	for id, x := range rtErrTable {
		if x == e {
			return id
		}
	}
	return 0
}

func getFn(id string) *ugo.Function {
	if f, ok := fnTable[id]; ok {
		return f
	}
	f := &ugo.Function{Name: id, Value: func(args ...ugo.Object) (ugo.Object, error) { return ugo.Undefined, nil }}
	fnTable[id] = f
	return f
}

func fnID(f *ugo.Function) string {
	for id, g := range fnTable {
		if g == f {
			return id
		}
	}
	return "gofunc"
}

// ValueOfSexp builds a uGO object from its s-expression.
func ValueOfSexp(s *Sexp) ugo.Object {
	switch s.Head() {
	case "n":
		return ugo.Undefined
	case "b":
		return ugo.Bool(s.List[1].Atom == "1")
	case "i":
		return ugo.Int(atomInt(s.List[1]))
	case "u":
		return ugo.Uint(atomUint(s.List[1]))
	case "f":
		return ugo.Float(atomFloat(s.List[1]))
	case "c":
		return ugo.Char(atomInt(s.List[1]))
	case "s":
		return ugo.String(atomBytes(s.List[1]))
	case "y":
		return ugo.Bytes(atomBytes(s.List[1]))
	case "a":
		arr := make(ugo.Array, 0, len(s.List)-1)
		for _, x := range s.List[1:] {
			arr = append(arr, ValueOfSexp(x))
		}
		return arr
	case "m":
		m := make(ugo.Map, len(s.List)-1)
		for _, kv := range s.List[1:] {
			m[string(atomBytes(kv.List[0]))] = ValueOfSexp(kv.List[1])
		}
		return m
	case "sm":
		m := make(ugo.Map, len(s.List)-1)
		for _, kv := range s.List[1:] {
			m[string(atomBytes(kv.List[0]))] = ValueOfSexp(kv.List[1])
		}
		return &ugo.SyncMap{Value: m}
	case "e":
		return getErr(atomInt(s.List[1]), string(atomBytes(s.List[2])), string(atomBytes(s.List[3])))
	case "re":
		id := atomInt(s.List[1])
		if r, ok := rtErrTable[id]; ok {
			return r
		}
		r := &ugo.RuntimeError{Err: getErr(atomInt(s.List[2]), string(atomBytes(s.List[3])), string(atomBytes(s.List[4])))}
		rtErrTable[id] = r
		return r
	case "fn":
		return getFn(string(atomBytes(s.List[1])))
	// host-side objects in unusual but representable states
	case "optr0":
		return &ugo.ObjectPtr{}
	case "optr":
		var o ugo.Object = ugo.Int(7)
		return &ugo.ObjectPtr{Value: &o}
	case "sm0":
		return &ugo.SyncMap{}
	case "fn0":
		return &ugo.Function{Name: "novalue"}
	case "bfn":
		return ugo.BuiltinObjects[ugo.BuiltinLen]
	case "nilerr":
		return (*ugo.Error)(nil)
	case "nilrt":
		return (*ugo.RuntimeError)(nil)
	case "rt0":
		return &ugo.RuntimeError{}
	case "oimpl":
		return &hostObj{}
	}
	panic("bad value sexp: " + s.String())
}

// hostObj is a host object that embeds ObjectImpl and overrides nothing but TypeName: its String method
// panics (not implemented), as the documentation of ObjectImpl says.
type hostObj struct{ ugo.ObjectImpl }

func (*hostObj) TypeName() string { return "hostobj" }

func sortedKeys(m map[string]ugo.Object) []string {
	keys := make([]string, 0, len(m))
	for k := range m {
		keys = append(keys, k)
	}
	sort.Strings(keys)
	return keys
}

// SexpOfValue renders a uGO object canonically (map keys sorted bytewise).
func SexpOfValue(o ugo.Object) *Sexp {
	switch v := o.(type) {
	case nil:
		return L(A("gonil"))
	case *ugo.UndefinedType:
		return L(A("n"))
	case ugo.Bool:
		if v {
			return L(A("b"), A("1"))
		}
		return L(A("b"), A("0"))
	case ugo.Int:
		return L(A("i"), A(strconv.FormatInt(int64(v), 10)))
	case ugo.Uint:
		return L(A("u"), A(strconv.FormatUint(uint64(v), 10)))
	case ugo.Float:
		return L(A("f"), floatAtom(float64(v)))
	case ugo.Char:
		return L(A("c"), A(strconv.FormatInt(int64(v), 10)))
	case ugo.String:
		return L(A("s"), hexAtom([]byte(v)))
	case ugo.Bytes:
		return L(A("y"), hexAtom([]byte(v)))
	case ugo.Array:
		out := L(A("a"))
		for _, x := range v {
			out.List = append(out.List, SexpOfValue(x))
		}
		return out
	case ugo.Map:
		out := L(A("m"))
		for _, k := range sortedKeys(v) {
			out.List = append(out.List, L(hexAtom([]byte(k)), SexpOfValue(v[k])))
		}
		return out
	case *ugo.SyncMap:
		out := L(A("sm"))
		if v != nil {
			for _, k := range sortedKeys(v.Value) {
				out.List = append(out.List, L(hexAtom([]byte(k)), SexpOfValue(v.Value[k])))
			}
		}
		return out
	case *ugo.Error:
		return L(A("e"), A(strconv.FormatInt(errID(v), 10)), hexAtom([]byte(v.Name)), hexAtom([]byte(v.Message)))
	case *ugo.RuntimeError:
		if v.Err == nil {
			return L(A("re"), A(strconv.FormatInt(rtErrID(v), 10)), A("0"), hexAtom(nil), hexAtom(nil))
		}
		return L(A("re"), A(strconv.FormatInt(rtErrID(v), 10)), A(strconv.FormatInt(errID(v.Err), 10)), hexAtom([]byte(v.Err.Name)), hexAtom([]byte(v.Err.Message)))
	case *ugo.Function:
		return L(A("fn"), hexAtom([]byte(fnID(v))))
	case *ugo.CompiledFunction:
		return L(A("fn"), hexAtom([]byte("compiled")))
	case *ugo.BuiltinFunction:
		return L(A("fn"), hexAtom([]byte("builtin:"+v.Name)))
	case *hostObj:
		return L(A("o"), hexAtom([]byte("hostobj")), hexAtom(nil))
	}
	return opaqueSexp(o)
}

func errSexp(err error) *Sexp {
	name, msg := "error", err.Error()
	if i := strings.Index(msg, "\nGo Stack:"); i >= 0 {
		msg = msg[:i] // Go stack text is not an observable
	}
	switch e := err.(type) {
	case *ugo.Error:
		name, msg = e.Name, e.Message
	case *ugo.RuntimeError:
		if e.Err != nil {
			name, msg = e.Err.Name, e.Err.Message
		}
	}
	return L(A("err"), hexAtom([]byte(name)), hexAtom([]byte(msg)))
}
