package main

import (
	"encoding/hex"
	"fmt"
	"io"
	"math"
	"sort"
	"strconv"
	"strings"
	"time"

	"github.com/ozanh/ugo"
	ufmt "github.com/ozanh/ugo/stdlib/fmt"
	ujson "github.com/ozanh/ugo/stdlib/json"
	ustrings "github.com/ozanh/ugo/stdlib/strings"
	utime "github.com/ozanh/ugo/stdlib/time"
)

// ---- C19: every exported callable x boundary argument tuples, under recover ----

type poolEntry struct {
	name string
	mk   func() ugo.Object
}

var c19fnBytecode *ugo.Bytecode

func c19vm() *ugo.VM {
	if c19fnBytecode == nil {
		bc, err := ugo.Compile([]byte(`return func(...a) { return len(a) }`), ugo.CompilerOptions{})
		if err != nil {
			panic(err)
		}
		c19fnBytecode = bc
	}
	return ugo.NewVM(c19fnBytecode)
}

func c19compiledFn() ugo.Object {
	v, err := c19vm().Run(nil)
	if err != nil {
		panic(err)
	}
	return v
}

var c19time = time.Date(2021, 3, 4, 5, 6, 7, 8, time.UTC)

// lengths around the sizes of internal buffers (64-byte scratch arrays and their base64 / hex
// expansions, small-size fast paths, 16-bit counts)
var c19lengths = []int{48, 49, 63, 64, 65, 128, 129, 256, 257, 1024, 1025, 4096, 4097, 65536}

// c19pool: the boundary pool; the entries named L:* (bytes, strings and arrays of every length of
// c19lengths) come last and are used in their own sweep, not in the full tuple enumeration.
func c19pool() []poolEntry {
	p := c19pool0()
	for _, n := range c19lengths {
		n := n
		p = append(p,
			poolEntry{fmt.Sprintf("L:b%d", n), func() ugo.Object {
				b := make(ugo.Bytes, n)
				for i := range b {
					b[i] = byte(i * 7)
				}
				return b
			}},
			poolEntry{fmt.Sprintf("L:s%d", n), func() ugo.Object { return ugo.String(strings.Repeat("a\u00e9", n/3+1)[:n]) }},
			poolEntry{fmt.Sprintf("L:a%d", n), func() ugo.Object {
				a := make(ugo.Array, n)
				for i := range a {
					a[i] = ugo.Int(i)
				}
				return a
			}})
	}
	// byte strings that end inside a multi-byte sequence or an escape, bare and after the start of a JSON document
	for i, tail := range []string{"\xe2\x80", "\xe2", "\xf0\x9f\x98", "\xc3", "\\", "\\u00", "\\ud83d", "%", "%!", "\x00"} {
		for j, head := range []string{"", "\"", "[1,\"ab", "{\"k\":\"v"} {
			tail, head := tail, head
			p = append(p,
				poolEntry{fmt.Sprintf("L:ts%d.%d", i, j), func() ugo.Object { return ugo.String(head + tail) }},
				poolEntry{fmt.Sprintf("L:tb%d.%d", i, j), func() ugo.Object { return ugo.Bytes(head + tail) }})
		}
	}
	// complete JSON documents with edge content: lone and paired surrogate escapes at the end of a string, a key with
	// one, huge numbers, deep nesting, a NUL escape, raw control characters
	for i, doc := range []string{`"\ud800"`, `"abc\udc00"`, `["\ud83d"]`, `{"k\udfff":1}`, `"\ud83d\ude00\ud83d"`, `"\ud83d\ude00"`, `"\u0000"`, `1e400`, `-1e-400`,
		`123456789012345678901234567890`, strings.Repeat("[", 200) + strings.Repeat("]", 200), strings.Repeat(`{"a":`, 100) + "1" + strings.Repeat("}", 100),
		"\"a\tb\"", `{"a":1,"a":2}`, ` [ ] `, `nul`, `"\u12"`, `"\"`} {
		doc := doc
		p = append(p,
			poolEntry{fmt.Sprintf("L:js%d", i), func() ugo.Object { return ugo.String(doc) }},
			poolEntry{fmt.Sprintf("L:jb%d", i), func() ugo.Object { return ugo.Bytes(doc) }})
	}
	return p
}

func c19pool0() []poolEntry {
	obj := func(o ugo.Object) func() ugo.Object { return func() ugo.Object { return o } }
	return []poolEntry{
		{"undefined", obj(ugo.Undefined)},
		{"true", obj(ugo.True)},
		{"false", obj(ugo.False)},
		{"i0", obj(ugo.Int(0))},
		{"i1", obj(ugo.Int(1))},
		{"i-1", obj(ugo.Int(-1))},
		{"i3", obj(ugo.Int(3))},
		{"i65536", obj(ugo.Int(65536))},
		{"i2^33", obj(ugo.Int(1 << 33))},
		{"i2^62", obj(ugo.Int(1 << 62))},
		{"imax", obj(ugo.Int(math.MaxInt64))},
		{"imin", obj(ugo.Int(math.MinInt64))},
		{"u0", obj(ugo.Uint(0))},
		{"umax", obj(ugo.Uint(math.MaxUint64))},
		{"f0", obj(ugo.Float(0))},
		{"fnan", obj(ugo.Float(math.NaN()))},
		{"finf", obj(ugo.Float(math.Inf(1)))},
		{"f-1e300", obj(ugo.Float(-1e300))},
		{"f2.5", obj(ugo.Float(2.5))},
		{"ca", obj(ugo.Char('a'))},
		{"c0", obj(ugo.Char(0))},
		{"c-1", obj(ugo.Char(-1))},
		{"c110000", obj(ugo.Char(0x110000))},
		{"s", obj(ugo.String(""))},
		{"sa", obj(ugo.String("a"))},
		{"s12", obj(ugo.String("12"))},
		{"sfmt", obj(ugo.String("%d %s %v %[3]*.[2]*[1]f %!"))},
		{"stime", obj(ugo.String("2006-01-02T15:04:05Z"))},
		{"sutc", obj(ugo.String("UTC"))},
		{"sbad", obj(ugo.String("\xff\xfe"))},
		{"sjson", obj(ugo.String(`{"a":[1,"x",null]}`))},
		{"b", func() ugo.Object { return ugo.Bytes{} }},
		{"b2", func() ugo.Object { return ugo.Bytes{0, 255} }},
		{"arr", func() ugo.Object { return ugo.Array{} }},
		{"arr3", func() ugo.Object { return ugo.Array{ugo.Int(1), ugo.String("a"), ugo.Array{ugo.Int(2)}} }},
		{"map", func() ugo.Object { return ugo.Map{} }},
		{"map2", func() ugo.Object { return ugo.Map{"a": ugo.Int(1), "b": ugo.Array{ugo.Int(1)}} }},
		{"smap", func() ugo.Object { return &ugo.SyncMap{Value: ugo.Map{"k": ugo.Undefined}} }},
		{"smapnil", func() ugo.Object { return &ugo.SyncMap{} }},
		{"err", func() ugo.Object { return &ugo.Error{Name: "E", Message: "m"} }},
		{"rterr", func() ugo.Object { return &ugo.RuntimeError{Err: &ugo.Error{Name: "R", Message: "r"}} }},
		{"gofn", func() ugo.Object {
			return &ugo.Function{Name: "g", Value: func(args ...ugo.Object) (ugo.Object, error) { return ugo.Int(len(args)), nil }}
		}},
		{"bifn", obj(ugo.BuiltinObjects[ugo.BuiltinLen])},
		{"cfn", c19compiledFn},
		{"time", func() ugo.Object { return &utime.Time{Value: c19time} }},
		{"time0", func() ugo.Object { return &utime.Time{} }},
		{"loc", func() ugo.Object { return &utime.Location{Value: time.UTC} }},
		{"scanarg", func() ugo.Object {
			v, _ := ufmt.Module["ScanArg"].(*ugo.Function).Value(ugo.String("int"))
			return v
		}},
		{"rawmsg", func() ugo.Object { return &ujson.RawMessage{Value: []byte(`{"a":1}`)} }},
		{"encopt", func() ugo.Object { return &ujson.EncoderOptions{Value: ugo.Int(1)} }},
	}
}

func c19class(o ugo.Object) string {
	switch o.(type) {
	case *ugo.UndefinedType:
		return "undefined"
	case ugo.Bool:
		return "bool"
	case ugo.Int:
		return "int"
	case ugo.Uint:
		return "uint"
	case ugo.Float:
		return "float"
	case ugo.Char:
		return "char"
	case ugo.String:
		return "string"
	case ugo.Bytes:
		return "bytes"
	case ugo.Array:
		return "array"
	case ugo.Map:
		return "map"
	case *ugo.SyncMap:
		return "syncmap"
	case *ugo.Error:
		return "error"
	case *ugo.RuntimeError:
		return "rterror"
	case *ugo.Function:
		return "function"
	case *ugo.BuiltinFunction:
		return "builtinfn"
	case *ugo.CompiledFunction:
		return "compiledfn"
	case *utime.Time:
		return "time"
	case *utime.Location:
		return "location"
	}
	return "other"
}

// parse facts of a string argument, computed with the Go standard library only
func c19flags(o ugo.Object) string {
	s, ok := o.(ugo.String)
	if !ok {
		return "------"
	}
	f := []byte("------")
	if _, err := strconv.ParseInt(string(s), 0, 0); err == nil {
		f[0] = 'i'
	}
	if _, err := strconv.ParseInt(string(s), 0, 64); err == nil {
		f[1] = 'I'
	}
	if _, err := strconv.ParseUint(string(s), 0, 64); err == nil {
		f[2] = 'u'
	}
	if _, err := strconv.ParseFloat(string(s), 64); err == nil {
		f[3] = 'f'
	}
	if _, err := time.Parse(time.RFC3339Nano, string(s)); err == nil {
		f[4] = 't'
	} else if _, err := time.Parse(time.RFC3339, string(s)); err == nil {
		f[4] = 't'
	}
	if _, err := time.LoadLocation(string(s)); err == nil {
		f[5] = 'l'
	}
	return string(f)
}

type c19callable struct {
	id   string
	call func(mode string, vm *ugo.VM, args []ugo.Object) (ugo.Object, error)
	// script form: receiver/function global plus method name ("" for a plain call)
	target func() ugo.Object
	method string
}

func fnCallable(id string, get func() ugo.Object) c19callable {
	return c19callable{
		id: id,
		call: func(mode string, vm *ugo.VM, args []ugo.Object) (ugo.Object, error) {
			switch f := get().(type) {
			case *ugo.Function:
				if mode == "ex" && f.ValueEx != nil {
					return f.ValueEx(ugo.NewCall(vm, args))
				}
				if mode == "exv" && f.ValueEx != nil {
					// same arguments split between fixed and variadic part
					h := len(args) / 2
					return f.ValueEx(ugo.NewCall(vm, args[:h], args[h:]...))
				}
				return f.Value(args...)
			case *ugo.BuiltinFunction:
				if mode == "ex" && f.ValueEx != nil {
					return f.ValueEx(ugo.NewCall(vm, args))
				}
				if mode == "exv" && f.ValueEx != nil {
					h := len(args) / 2
					return f.ValueEx(ugo.NewCall(vm, args[:h], args[h:]...))
				}
				return f.Value(args...)
			}
			return nil, fmt.Errorf("not a function")
		},
		target: get,
	}
}

func methodCallable(id string, recv func() ugo.Object, name string) c19callable {
	return c19callable{
		id: id,
		call: func(mode string, vm *ugo.VM, args []ugo.Object) (ugo.Object, error) {
			r := recv()
			if nc, ok := r.(ugo.NameCallerObject); ok {
				if mode == "exv" {
					h := len(args) / 2
					return nc.CallName(name, ugo.NewCall(vm, args[:h], args[h:]...))
				}
				return nc.CallName(name, ugo.NewCall(vm, args))
			}
			f, err := r.IndexGet(ugo.String(name))
			if err != nil {
				return nil, err
			}
			if !f.CanCall() {
				return nil, fmt.Errorf("not callable")
			}
			return f.Call(args...)
		},
		target: recv,
		method: name,
	}
}

var c19inventory []c19callable

func c19callables() []c19callable {
	if c19inventory != nil {
		return c19inventory
	}
	var out []c19callable
	for name, idx := range ugo.BuiltinsMap {
		idx := idx
		switch ugo.BuiltinObjects[idx].(type) {
		case *ugo.BuiltinFunction:
			out = append(out, fnCallable("builtin."+name, func() ugo.Object { return ugo.BuiltinObjects[idx] }))
		case *ugo.Error:
			out = append(out, methodCallable("builtin."+name+".New", func() ugo.Object { return ugo.BuiltinObjects[idx] }, "New"))
		}
	}
	mods := map[string]map[string]ugo.Object{
		"fmt": ufmt.Module, "json": ujson.Module, "strings": ustrings.Module, "time": utime.Module,
	}
	for mn, m := range mods {
		for fname, v := range m {
			m, fname := m, fname
			if _, ok := v.(*ugo.Function); ok {
				out = append(out, fnCallable(mn+"."+fname, func() ugo.Object { return m[fname] }))
			}
		}
	}
	// time and location methods by name call; the documented getters too
	for _, name := range []string{"Add", "Sub", "AddDate", "After", "Before", "Format", "AppendFormat", "In", "Round",
		"Truncate", "Equal", "Date", "Clock", "UTC", "Unix", "UnixNano", "Year", "Month", "Day", "Hour", "Minute",
		"Second", "Nanosecond", "NanoSecond", "IsZero", "Local", "Location", "YearDay", "Weekday", "ISOWeek", "Zone", "NoSuch"} {
		out = append(out, methodCallable("time.method."+name, func() ugo.Object { return &utime.Time{Value: c19time} }, name))
	}
	for _, name := range []string{"String", "Name", "NoSuch"} {
		out = append(out, methodCallable("time.location."+name, func() ugo.Object { return &utime.Location{Value: time.UTC} }, name))
	}
	out = append(out, methodCallable("error.New", func() ugo.Object { return &ugo.Error{Name: "E", Message: "m"} }, "New"))
	out = append(out, methodCallable("rterror.New", func() ugo.Object {
		return &ugo.RuntimeError{Err: &ugo.Error{Name: "R", Message: "r"}}
	}, "New"))
	sort.Slice(out, func(i, j int) bool { return out[i].id < out[j].id })
	c19inventory = out
	return out
}

func c19find(id string) *c19callable {
	cs := c19callables()
	i := sort.Search(len(cs), func(i int) bool { return cs[i].id >= id })
	if i < len(cs) && cs[i].id == id {
		return &cs[i]
	}
	return nil
}

// sleepy reports argument tuples which make time.Sleep block for long (legitimately)
func c19sleepy(id string, args []ugo.Object) bool {
	if id != "time.Sleep" || len(args) != 1 {
		return false
	}
	d, ok := ugo.ToGoInt64(args[0])
	return ok && d > int64(25*time.Millisecond)
}

// outcome token of one call: B (returned a value), E<message> (returned an error), P<text> (panicked)
func c19token(v ugo.Object, err error, pan any) string {
	if pan != nil {
		return "P" + c19hex(fmt.Sprint(pan))
	}
	if err != nil {
		msg := err.Error()
		if i := strings.Index(msg, "\nGo Stack:"); i >= 0 {
			msg = msg[:i]
		}
		return "E" + c19hex(msg)
	}
	if v == nil {
		return "N" // a nil Object without an error
	}
	return "B"
}

func c19hex(s string) string { return hex.EncodeToString([]byte(s)) }

func c19direct(c *c19callable, mode string, vm *ugo.VM, args []ugo.Object) (tok string) {
	var v ugo.Object
	var err error
	var pan any
	func() {
		defer func() {
			if r := recover(); r != nil {
				pan = r
			}
		}()
		v, err = c.call(mode, vm, args)
	}()
	return c19token(v, err, pan)
}

func c19script(c *c19callable, args []ugo.Object) string {
	names := make([]string, len(args))
	g := ugo.Map{"t": c.target()}
	for i, a := range args {
		names[i] = fmt.Sprintf("a%d", i)
		g[names[i]] = a
	}
	var src string
	src = "global(t"
	for _, n := range names {
		src += ", " + n
	}
	src += ")\nreturn t"
	if c.method != "" {
		src += "." + c.method
	}
	src += "(" + strings.Join(names, ", ") + ")"
	bc, err, pan := compileSrc([]byte(src), ugo.CompilerOptions{})
	if pan != nil {
		return "P" + c19hex(fmt.Sprint(pan))
	}
	if err != nil {
		return "C" + c19hex(err.Error())
	}
	r := runBytecode(bc, g)
	switch r.Head() {
	case "panic":
		return "P" + c19hex(r.List[1].Atom)
	case "timeout":
		return "X"
	case "ok":
		return "B"
	}
	return "E" + c19hex(r.String())
}

// (case id inv19)                    -> (ok (cid ...))
// (case id pool19)                   -> (ok (name class typename flags) ...)
// (case id calls19 cid mode (t...))  -> (ok tok ...) ; each t is a list of pool indexes; mode value|ex|exv|exn|script
func runC19(kind string, args []*Sexp) *Sexp {
	ugo.PrintWriter = io.Discard
	switch kind {
	case "inv19":
		out := L(A("ok"))
		for _, c := range c19callables() {
			out.List = append(out.List, A(c.id))
		}
		return out
	case "pool19":
		out := L(A("ok"))
		for _, p := range c19pool() {
			o := p.mk()
			out.List = append(out.List, L(A(p.name), A(c19class(o)), A(o.TypeName()), A(c19flags(o))))
		}
		return out
	case "calls19":
		c := c19find(args[0].Atom)
		if c == nil {
			return L(A("unknown-callable"))
		}
		mode := args[1].Atom
		pool := c19pool()
		out := L(A("ok"))
		loop := func(vm *ugo.VM) {
			for _, t := range args[2].List {
				vals := make([]ugo.Object, len(t.List))
				for i, x := range t.List {
					vals[i] = pool[atomInt(x)].mk()
				}
				if c.id == "time.Sleep" {
					// for Sleep the pool value 65536 stands for 12 ms, so that the poll of the
					// abort flag inside its wait loop (every 10 ms) is reached
					for i := range vals {
						if vals[i] == ugo.Int(65536) {
							vals[i] = ugo.Int(12 * time.Millisecond)
						}
					}
				}
				if c19sleepy(c.id, vals) {
					out.List = append(out.List, A("S"))
					continue
				}
				var tok string
				if mode == "script" {
					tok = c19script(c, vals)
				} else if mode == "exn" {
					// CallEx with a Call that carries no VM (as Function.Call of a host does)
					tok = c19direct(c, "ex", nil, vals)
				} else {
					tok = c19direct(c, mode, vm, vals)
				}
				out.List = append(out.List, A(tok))
			}
		}
		if mode == "ex" || mode == "exv" {
			// the calls are made from a Go function running on a VM, as the VM makes them
			probe := &ugo.Function{Name: "probe", ValueEx: func(pc ugo.Call) (ugo.Object, error) {
				loop(pc.VM())
				return ugo.Undefined, nil
			}}
			bc, err := ugo.Compile([]byte("global probe\nf := func(...a) { return len(a) }\nreturn probe(f)"), ugo.CompilerOptions{})
			if err != nil {
				return L(A("probe-compile-error"))
			}
			if _, err = ugo.NewVM(bc).Run(ugo.Map{"probe": probe}); err != nil {
				return L(A("probe-run-error"), A(c19hex(err.Error())))
			}
		} else {
			loop(nil)
		}
		return out
	}
	return L(A("unknown-kind"))
}

// (case id size19 repeat a|s|b <len> <count>) | (mkarr <n> <L|-1>) | (srepeat <len> <count>) | (pad <left> <ls> <padLen> <lp> <haspad>)
// -> (ok <result length>) | (err negative|toolarge|<hex>) | (panic ...)
func runSize19(args []*Sexp) (out *Sexp) {
	defer func() {
		if r := recover(); r != nil {
			out = L(A("panic"), A(c19hex(fmt.Sprint(r))))
		}
	}()
	lenOf := func(o ugo.Object) *Sexp {
		switch v := o.(type) {
		case ugo.Array:
			return L(A("ok"), A(strconv.Itoa(len(v))))
		case ugo.String:
			return L(A("ok"), A(strconv.Itoa(len(v))))
		case ugo.Bytes:
			return L(A("ok"), A(strconv.Itoa(len(v))))
		}
		return L(A("ok"), A("-1"))
	}
	errOf := func(err error) *Sexp {
		m := err.Error()
		switch {
		case strings.Contains(m, "too large"):
			return L(A("err"), A("toolarge"))
		case strings.Contains(m, "negative"):
			return L(A("err"), A("negative"))
		}
		return L(A("err"), A(c19hex(m)))
	}
	mk := func(kind string, n int) ugo.Object {
		switch kind {
		case "a":
			arr := make(ugo.Array, n)
			for i := range arr {
				arr[i] = ugo.Int(i)
			}
			return arr
		case "s":
			return ugo.String(strings.Repeat("a", n))
		}
		return ugo.Bytes(strings.Repeat("b", n))
	}
	var v ugo.Object
	var err error
	switch args[0].Atom {
	case "repeat":
		f := ugo.BuiltinObjects[ugo.BuiltinRepeat].(*ugo.BuiltinFunction)
		v, err = f.Value(mk(args[1].Atom, int(atomInt(args[2]))), ugo.Int(atomInt(args[3])))
	case "mkarr":
		f := ugo.BuiltinObjects[ugo.BuiltinMakeArray].(*ugo.BuiltinFunction)
		var arg ugo.Object = ugo.Int(7)
		if l := atomInt(args[2]); l >= 0 {
			arg = mk("a", int(l))
		}
		v, err = f.Value(ugo.Int(atomInt(args[1])), arg)
	case "srepeat":
		v, err = ustrings.Module["Repeat"].(*ugo.Function).Value(mk("s", int(atomInt(args[1]))), ugo.Int(atomInt(args[2])))
	case "pad":
		name := "PadRight"
		if args[1].Atom == "1" {
			name = "PadLeft"
		}
		call := []ugo.Object{mk("s", int(atomInt(args[2]))), ugo.Int(atomInt(args[3]))}
		if args[5].Atom == "1" {
			call = append(call, mk("s", int(atomInt(args[4]))))
		}
		v, err = ustrings.Module[name].(*ugo.Function).Value(call...)
	default:
		return L(A("unknown-size19"))
	}
	if err != nil {
		return errOf(err)
	}
	return lenOf(v)
}
