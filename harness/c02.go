package main

import (
	"fmt"
	"strings"

	"github.com/ozanh/ugo"
)

// (case id run02 <opt|noopt> <src hex>) -> (ok <value>) | (err <error name>) | (compile-error <first line>)
func runRun02(args []*Sexp) *Sexp {
	opts := ugo.CompilerOptions{NoOptimize: args[0].Atom == "noopt"}
	bc, err, pan := compileSrc(atomBytes(args[1]), opts)
	if pan != nil {
		return L(A("compile-panic"), A(sanitize(fmt.Sprint(pan))))
	}
	if err != nil {
		msg := firstLine(err.Error())
		if strings.Contains(msg, "unresolved reference") {
			return L(A("err"), A("unresolved"))
		}
		return L(A("compile-error"), A(sanitize(msg)))
	}
	r := runBytecode(bc, nil)
	if r.Head() == "err" {
		return L(A("err"), A(string(atomBytes(r.List[1]))))
	}
	return r
}
