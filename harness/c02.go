package main

import (
	"fmt"
	"strings"

	"github.com/ozanh/ugo"
	"github.com/ozanh/ugo/token"
)

// (case id run02 <opt|noopt> <src hex>) -> (ok <value>) | (err <error name>) | (compile-error <first line>)
func runRun02(args []*Sexp) *Sexp {
	opts := ugo.CompilerOptions{NoOptimize: args[0].Atom == "noopt"}
	bc, err, pan := compileSrc(atomBytes(args[1]), opts)
	if pan != nil {
		return L(A("compile-panic"), A(sanitize(fmt.Sprint(pan))))
	}
	if err != nil {
		msg := firstLine(err.Error())
		if strings.Contains(msg, "unresolved reference") {
			return L(A("err"), A("unresolved"))
		}
		return L(A("compile-error"), A(sanitize(msg)))
	}
	r := runBytecode(bc, nil)
	if r.Head() == "err" {
		return L(A("err"), A(string(atomBytes(r.List[1]))))
	}
	return r
}

var tokNames = map[string]string{"+": "add", "-": "sub", "*": "mul", "/": "quo", "%": "rem", "&": "and", "|": "or", "^": "xor",
	"&^": "andnot", "<<": "shl", ">>": "shr", "<": "lt", "<=": "le", ">": "gt", ">=": "ge", "!": "not"}

// (case id exprcomp <src hex> (args v...)) -> (exprcomp (code (pos NAME operand...)...) <result>)
// the script is `param (...)` + `return <expr>`; compiled without the optimizer
func runExprComp(args []*Sexp) *Sexp {
	bc, err, pan := compileSrc(atomBytes(args[0]), ugo.CompilerOptions{NoOptimize: true})
	if pan != nil || err != nil {
		return L(A("compile-error"), A(sanitize(fmt.Sprint(err, pan))))
	}
	code := L(A("code"))
	ugo.IterateInstructions(bc.Main.Instructions, func(pos int, op ugo.Opcode, operands []int, offset int) bool {
		it := L(A(fmt.Sprint(pos)), A(ugo.OpcodeNames[op]))
		for _, o := range operands {
			if op == ugo.OpBinaryOp || op == ugo.OpUnary {
				it.List = append(it.List, A(tokNames[token.Token(o).String()]))
			} else {
				it.List = append(it.List, A(fmt.Sprint(o)))
			}
		}
		code.List = append(code.List, it)
		return true
	})
	consts := L(A("consts"))
	for _, c := range bc.Constants {
		consts.List = append(consts.List, SexpOfValue(c))
	}
	var vals []ugo.Object
	for _, a := range args[1].List[1:] {
		vals = append(vals, ValueOfSexp(a))
	}
	r := runBytecode(bc, nil, vals...)
	if r.Head() == "err" {
		r = L(A("err"))
	}
	return L(A("exprcomp"), code, consts, r)
}
