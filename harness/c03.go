package main

import (
	"fmt"
	"strconv"
	"strings"

	"github.com/ozanh/ugo"
)

// renderSkel renders a skeleton statement as uGO source.
// bareReturns: return statements are rendered without a value (the compiler has a separate path for them)
var bareReturns bool

// lexicalTry: every function literal of the script is written inside a try statement of the main script
var lexicalTry bool

func renderSkel(b *strings.Builder, s *Sexp, indent string, loopDepth *int) {
	switch s.Head() {
	case "log":
		fmt.Fprintf(b, "%sL(%s)\n", indent, s.List[1].Atom)
	case "break":
		fmt.Fprintf(b, "%sbreak\n", indent)
	case "continue":
		fmt.Fprintf(b, "%scontinue\n", indent)
	case "ret":
		if bareReturns {
			fmt.Fprintf(b, "%sreturn\n", indent)
		} else {
			fmt.Fprintf(b, "%sreturn %s\n", indent, s.List[1].Atom)
		}
	case "throw":
		fmt.Fprintf(b, "%sthrow \"t%s\"\n", indent, s.List[1].Atom)
	case "fail":
		fmt.Fprintf(b, "%sZ = 1 / Z\n", indent)
	case "call":
		fmt.Fprintf(b, "%sR(f%s())\n", indent, s.List[1].Atom)
	case "loop":
		*loopDepth++
		v := "i" + strconv.Itoa(*loopDepth)
		fmt.Fprintf(b, "%sfor %s := 0; %s < 2; %s++ {\n", indent, v, v, v)
		for _, x := range s.List[1:] {
			renderSkel(b, x, indent+"  ", loopDepth)
		}
		fmt.Fprintf(b, "%s}\n", indent)
	case "try":
		fmt.Fprintf(b, "%stry {\n", indent)
		for _, x := range s.List[1].List[1:] {
			renderSkel(b, x, indent+"  ", loopDepth)
		}
		c := s.List[2]
		if c.Head() == "catch" {
			if c.List[1].Atom == "1" {
				fmt.Fprintf(b, "%s} catch e {\n%s  C(e)\n", indent, indent)
			} else {
				fmt.Fprintf(b, "%s} catch {\n", indent)
			}
			for _, x := range c.List[2:] {
				renderSkel(b, x, indent+"  ", loopDepth)
			}
		}
		f := s.List[3]
		if f.Head() == "fin" {
			fmt.Fprintf(b, "%s} finally {\n", indent)
			for _, x := range f.List[1:] {
				renderSkel(b, x, indent+"  ", loopDepth)
			}
		}
		fmt.Fprintf(b, "%s}\n", indent)
	default:
		panic("bad skel " + s.String())
	}
}

func skelScript(fns []*Sexp) string {
	var b strings.Builder
	b.WriteString("log := []\nZ := 0\n")
	b.WriteString("L := func(x) { log = append(log, [\"l\", x]) }\n")
	b.WriteString("R := func(x) { log = append(log, [\"r\", x]) }\n")
	b.WriteString("C := func(e) { log = append(log, [\"c\", string(e)]) }\n")
	for i, fn := range fns {
		if lexicalTry {
			// the function literal is written inside the try, catch or finally block of a try statement of the
			// main script (where a function is written makes no difference to what it does)
			fmt.Fprintf(&b, "var f%d\n", i)
			switch i % 3 {
			case 0:
				fmt.Fprintf(&b, "try {\nf%d = func() {\n", i)
			case 1:
				fmt.Fprintf(&b, "try { throw \"w\" } catch {\nf%d = func() {\n", i)
			default:
				fmt.Fprintf(&b, "try { } finally {\nf%d = func() {\n", i)
			}
		} else {
			fmt.Fprintf(&b, "f%d := func() {\n", i)
		}
		depth := 0
		for _, s := range fn.List[1:] {
			renderSkel(&b, s, "  ", &depth)
		}
		b.WriteString("}\n")
		if lexicalTry {
			if i%3 == 0 {
				b.WriteString("} finally { }\n")
			} else {
				b.WriteString("}\n")
			}
		}
	}
	fmt.Fprintf(&b, "res := undefined\ntry { res = [\"ret\", f%d()] } catch e { res = [\"err\", string(e)] }\nreturn [res, log]\n", len(fns)-1)
	return b.String()
}

func atomOfErrString(s string) string {
	if strings.HasPrefix(s, "error: t") {
		return s[len("error: t"):]
	}
	if strings.HasPrefix(s, "ZeroDivisionError") {
		return "-1"
	}
	return "?" + strings.ReplaceAll(s, " ", "_")
}

func runC03(kind string, args []*Sexp) *Sexp {
	bareReturns = kind == "skelvmb"
	lexicalTry = kind == "skelvmt"
	src := skelScript(args)
	bareReturns, lexicalTry = false, false
	if kind == "skelsrc" {
		return A(strings.ReplaceAll(strings.ReplaceAll(src, "\n", "\\n"), " ", "_"))
	}
	bc, err := ugo.Compile([]byte(src), ugo.CompilerOptions{})
	if err != nil {
		return L(A("compile-error"))
	}
	v, err := ugo.NewVM(bc).Run(nil)
	if err != nil {
		return L(A("run-error"), A(strings.ReplaceAll(err.Error(), " ", "_")))
	}
	arr := v.(ugo.Array)
	res := arr[0].(ugo.Array)
	var outcome *Sexp
	if string(res[0].(ugo.String)) == "ret" {
		if res[1] == ugo.Undefined {
			outcome = L(A("normal"))
		} else {
			outcome = L(A("return"), A(res[1].String()))
		}
	} else {
		outcome = L(A("throw"), A(atomOfErrString(string(res[1].(ugo.String)))))
	}
	lg := L(A("log"))
	for _, ev := range arr[1].(ugo.Array) {
		e := ev.(ugo.Array)
		tag := string(e[0].(ugo.String))
		switch tag {
		case "l":
			lg.List = append(lg.List, L(A("l"), A(e[1].String())))
		case "r":
			if e[1] == ugo.Undefined {
				lg.List = append(lg.List, L(A("r"), A("u")))
			} else {
				lg.List = append(lg.List, L(A("r"), A(e[1].String())))
			}
		case "c":
			lg.List = append(lg.List, L(A("c"), A(atomOfErrString(string(e[1].(ugo.String))))))
		}
	}
	return L(outcome, lg)
}
