package main

import (
	ustringsC18 "github.com/ozanh/ugo/stdlib/strings"
	"sort"
	"bytes"
	"encoding/hex"
	"fmt"
	"runtime"

	"github.com/ozanh/ugo"
	"github.com/ozanh/ugo/encoder"
	ugotime "github.com/ozanh/ugo/stdlib/time"
)

type decOutcome struct {
	class string // ok | err | panic
	text  string
	alloc uint64
}

func decodeOnce(data []byte, asObject bool) (out decOutcome) {
	var m0, m1 runtime.MemStats
	runtime.ReadMemStats(&m0)
	defer func() {
		if r := recover(); r != nil {
			out.class, out.text = "panic", sanitize(fmt.Sprint(r))
		}
		runtime.ReadMemStats(&m1)
		out.alloc = m1.TotalAlloc - m0.TotalAlloc
	}()
	var err error
	if asObject {
		_, err = encoder.DecodeObject(bytes.NewReader(data))
	} else {
		mm := ugo.NewModuleMap()
		mm.AddBuiltinModule("time", ugotime.Module)
		_, err = encoder.DecodeBytecodeFrom(bytes.NewReader(data), mm)
	}
	if err != nil {
		out.class, out.text = "err", sanitize(err.Error())
	} else {
		out.class = "ok"
	}
	return
}

// runC18: (case id decmut <src hex> <seed>)  all truncations and single-byte corruptions (several
// replacement values) of the v2 and v1-headed encodings; or (case id decraw <bytes hex> <obj 0|1>)
func runC18(kind string, args []*Sexp) *Sexp {
	if kind == "decraw" {
		data := atomBytes(args[0])
		o := decodeOnce(data, args[1].Atom == "1")
		return L(A(o.class), A(fmt.Sprint(o.alloc)), A(o.text))
	}
	src := atomBytes(args[0])
	bc, err, pan := compileSrc(src, ugo.CompilerOptions{ModuleMap: moduleMapStd()})
	if pan != nil || err != nil {
		return L(A("compile-error"))
	}
	var buf bytes.Buffer
	if err := encoder.EncodeBytecodeTo(bc, &buf); err != nil {
		return L(A("encode-error"), A(sanitize(err.Error())))
	}
	base := buf.Bytes()
	total, oks, errs := 0, 0, 0
	var bad []*Sexp
	maxRatio := 0.0
	try := func(data []byte, what string) {
		total++
		o := decodeOnce(data, false)
		switch o.class {
		case "ok":
			oks++
		case "err":
			errs++
		default:
			if len(bad) < 5 {
				bad = append(bad, L(A("panic"), A(what), A("x"+hex.EncodeToString(data)), A(o.text)))
			}
		}
		limit := uint64(400*len(data) + 1<<16)
		if o.alloc > limit {
			if len(bad) < 5 {
				bad = append(bad, L(A("alloc"), A(what), A("x"+hex.EncodeToString(data)), A(fmt.Sprint(o.alloc))))
			}
		}
		if r := float64(o.alloc) / float64(len(data)+1); r > maxRatio {
			maxRatio = r
		}
	}
	for _, version := range []byte{2, 1} {
		data := append([]byte(nil), base...)
		data[5] = version
		for n := 0; n <= len(data); n++ {
			try(data[:n], fmt.Sprintf("v%d-trunc-%d", version, n))
		}
		for i := 6; i < len(data); i++ {
			orig := data[i]
			for _, v := range []byte{0, 1, 0x7f, 0x80, 0xff, orig + 1, orig - 1, orig ^ 0x40} {
				if v == orig {
					continue
				}
				data[i] = v
				try(data, fmt.Sprintf("v%d-byte-%d-%d", version, i, v))
			}
			data[i] = orig
		}
	}
	res := L(A("decmut"), A(fmt.Sprint(len(base))), A(fmt.Sprint(total)), A(fmt.Sprint(oks)), A(fmt.Sprint(errs)), A(fmt.Sprintf("%.1f", maxRatio)), A("x"+hex.EncodeToString(base)))
	res.List = append(res.List, bad...)
	return res
}

// vmod is a builtin (Go) module with every item shape: plain values, functions, and functions
// nested in map, array and sync-map items.
func vmodAttrs() map[string]ugo.Object {
	triple := &ugo.Function{Name: "triple", Value: func(args ...ugo.Object) (ugo.Object, error) {
		if len(args) != 1 {
			return nil, ugo.ErrWrongNumArguments
		}
		if i, ok := args[0].(ugo.Int); ok {
			return i * 3, nil
		}
		return ugo.Undefined, nil
	}}
	inc := &ugo.Function{Name: "inc", Value: func(args ...ugo.Object) (ugo.Object, error) {
		if len(args) == 1 {
			if i, ok := args[0].(ugo.Int); ok {
				return i + 1, nil
			}
		}
		return ugo.Undefined, nil
	}}
	return map[string]ugo.Object{
		"k": ugo.Int(41), "name": ugo.String("vmod"), "pi": ugo.Float(3.5), "flag": ugo.True, "ch": ugo.Char('x'),
		"raw": ugo.Bytes{1, 2}, "u": ugo.Uint(7), "nothing": ugo.Undefined,
		"inc": inc,
		"ns":  ugo.Map{"triple": triple, "depth": ugo.Map{"inc": inc}, "n": ugo.Int(2)},
		"arr": ugo.Array{inc, ugo.Int(5), ugo.Array{triple}},
		"sm":  &ugo.SyncMap{Value: ugo.Map{"triple": triple}},
		// empty containers at every level: a copy of an empty container must be a new container too
		"empty":    ugo.Map{},
		"emptyarr": ugo.Array{},
		"emptysm":  &ugo.SyncMap{Value: ugo.Map{}},
		"emptyraw": ugo.Bytes{},
		"boxes":    ugo.Map{"m": ugo.Map{}, "a": ugo.Array{ugo.Map{}, ugo.Array{}}, "sm": &ugo.SyncMap{Value: ugo.Map{"inner": ugo.Map{}}}},
	}
}

func moduleMapStd() *ugo.ModuleMap {
	mm := ugo.NewModuleMap()
	mm.AddBuiltinModule("time", ugotime.Module)
	mm.AddBuiltinModule("vmod", vmodAttrs())
	mm.AddBuiltinModule("strings", ustringsC18.Module)
	return mm
}

// (case id builtinnames) -> (names <hex>...): every name of ugo.BuiltinsMap (functions and the
// error values alike), sorted
func runBuiltinNames(args []*Sexp) *Sexp {
	var names []string
	for n := range ugo.BuiltinsMap {
		names = append(names, n)
	}
	sort.Strings(names)
	out := L(A("names"))
	for _, n := range names {
		out.List = append(out.List, hexAtom([]byte(n)))
	}
	return out
}
