package main

import (
	"strings"
	"encoding/json"
	"errors"
	"fmt"
	"math"
	"sort"
	"strconv"
	"time"

	"github.com/ozanh/ugo"
	ugojson "github.com/ozanh/ugo/stdlib/json"
	ugotime "github.com/ozanh/ugo/stdlib/time"
)

type otherType struct{ X int }

// time payloads: "<unix nanoseconds>" (UTC), "<unix nanoseconds>@<zone offset in seconds>", "zero" (the zero
// time.Time, which UnixNano cannot express) and "zero@<offset>" (the zero instant carrying a zone)
func timeOfPayload(payload []byte) time.Time {
	p := string(payload)
	off := 0
	hasZone := false
	if i := strings.IndexByte(p, '@'); i >= 0 {
		off, _ = strconv.Atoi(p[i+1:])
		hasZone = true
		p = p[:i]
	}
	var t time.Time
	if p != "zero" {
		n, _ := strconv.ParseInt(p, 10, 64)
		t = time.Unix(0, n).UTC()
	}
	if hasZone {
		t = t.In(time.FixedZone("Z"+strconv.Itoa(off), off))
	}
	return t
}

func payloadOfTime(t time.Time) []byte {
	p := "zero"
	if !t.IsZero() {
		p = strconv.FormatInt(t.UnixNano(), 10)
	}
	if name, off := t.Zone(); t.Location() != time.UTC && !(name == "UTC" && off == 0) {
		p += "@" + strconv.Itoa(off)
	}
	return []byte(p)
}

func opaqueSexp(o ugo.Object) *Sexp {
	switch v := o.(type) {
	case *ugotime.Time:
		return L(A("o"), hexAtom([]byte("time")), hexAtom(payloadOfTime(v.Value)))
	case *ugotime.Location:
		return L(A("o"), hexAtom([]byte("location")), hexAtom([]byte(v.Value.String())))
	case *ugojson.RawMessage:
		return L(A("o"), hexAtom([]byte("rawMessage")), hexAtom([]byte(v.Value)))
	}
	return L(A("o"), hexAtom([]byte(o.TypeName())), hexAtom(nil))
}

func opaqueOfSexp(s *Sexp) ugo.Object {
	tag := string(atomBytes(s.List[1]))
	payload := atomBytes(s.List[2])
	switch tag {
	case "time":
		return &ugotime.Time{Value: timeOfPayload(payload)}
	case "location":
		loc, err := time.LoadLocation(string(payload))
		if err != nil {
			loc = time.UTC
		}
		return &ugotime.Location{Value: loc}
	case "rawMessage":
		return &ugojson.RawMessage{Value: payload}
	}
	return &ugo.ObjectPtr{}
}

func valueOfSexpC20(s *Sexp) ugo.Object {
	if s.Head() == "o" {
		return opaqueOfSexp(s)
	}
	switch s.Head() {
	case "a":
		arr := make(ugo.Array, 0, len(s.List)-1)
		for _, x := range s.List[1:] {
			arr = append(arr, valueOfSexpC20(x))
		}
		return arr
	case "m":
		m := make(ugo.Map, len(s.List)-1)
		for _, kv := range s.List[1:] {
			m[string(atomBytes(kv.List[0]))] = valueOfSexpC20(kv.List[1])
		}
		return m
	case "sm":
		m := make(ugo.Map, len(s.List)-1)
		for _, kv := range s.List[1:] {
			m[string(atomBytes(kv.List[0]))] = valueOfSexpC20(kv.List[1])
		}
		return &ugo.SyncMap{Value: m}
	}
	return ValueOfSexp(s)
}

func isNilAtom(s *Sexp) bool { return len(s.List) == 2 && s.List[1].IsAtom && s.List[1].Atom == "nil" }

// GoOfSexp builds a Go value for ToObject / ToObjectAlt.
func GoOfSexp(s *Sexp) any {
	switch s.Head() {
	case "nil":
		return nil
	case "str":
		return string(atomBytes(s.List[1]))
	case "i64":
		return int64(atomInt(s.List[1]))
	case "int":
		return int(atomInt(s.List[1]))
	case "uint":
		return uint(atomUint(s.List[1]))
	case "u64":
		return uint64(atomUint(s.List[1]))
	case "uptr":
		return uintptr(atomUint(s.List[1]))
	case "bool":
		return s.List[1].Atom == "1"
	case "i32":
		return int32(atomInt(s.List[1]))
	case "u8":
		return uint8(atomUint(s.List[1]))
	case "f64":
		return atomFloat(s.List[1])
	case "f32":
		v, err := strconv.ParseUint(s.List[1].Atom, 16, 32)
		if err != nil {
			panic(err)
		}
		return math.Float32frombits(uint32(v))
	case "i8":
		return int8(atomInt(s.List[1]))
	case "i16":
		return int16(atomInt(s.List[1]))
	case "u16":
		return uint16(atomUint(s.List[1]))
	case "u32":
		return uint32(atomUint(s.List[1]))
	case "bytes":
		if isNilAtom(s) {
			return []byte(nil)
		}
		return atomBytes(s.List[1])
	case "slice":
		if isNilAtom(s) {
			return []any(nil)
		}
		out := make([]any, 0, len(s.List)-1)
		for _, x := range s.List[1:] {
			out = append(out, GoOfSexp(x))
		}
		return out
	case "map":
		if isNilAtom(s) {
			return map[string]any(nil)
		}
		out := make(map[string]any, len(s.List)-1)
		for _, kv := range s.List[1:] {
			out[string(atomBytes(kv.List[0]))] = GoOfSexp(kv.List[1])
		}
		return out
	case "oslice":
		if isNilAtom(s) {
			return []ugo.Object(nil)
		}
		out := make([]ugo.Object, 0, len(s.List)-1)
		for _, x := range s.List[1:] {
			out = append(out, valueOfSexpC20(x))
		}
		return out
	case "omap":
		if isNilAtom(s) {
			return map[string]ugo.Object(nil)
		}
		out := make(map[string]ugo.Object, len(s.List)-1)
		for _, kv := range s.List[1:] {
			out[string(atomBytes(kv.List[0]))] = valueOfSexpC20(kv.List[1])
		}
		return out
	case "obj":
		return valueOfSexpC20(s.List[1])
	case "func":
		if s.List[1].Atom == "1" {
			return ugo.CallableFunc(nil)
		}
		return ugo.CallableFunc(func(args ...ugo.Object) (ugo.Object, error) { return ugo.Undefined, nil })
	case "err":
		return errors.New(string(atomBytes(s.List[1])))
	case "dur":
		return time.Duration(atomInt(s.List[1]))
	case "reg":
		tag := string(atomBytes(s.List[1]))
		isnil := s.List[2].Atom == "nil"
		var payload []byte
		if !isnil {
			payload = atomBytes(s.List[2])
		}
		switch tag {
		case "time.Time":
			return timeOfPayload(payload)
		case "*time.Time":
			if isnil {
				return (*time.Time)(nil)
			}
			t := timeOfPayload(payload)
			return &t
		case "*time.Location":
			if isnil {
				return (*time.Location)(nil)
			}
			loc, err := time.LoadLocation(string(payload))
			if err != nil {
				loc = time.UTC
			}
			return loc
		case "json.RawMessage":
			if isnil {
				return json.RawMessage(nil)
			}
			return json.RawMessage(payload)
		}
		panic("bad reg tag " + tag)
	case "other":
		switch string(atomBytes(s.List[1])) {
		case "main.otherType":
			return otherType{1}
		case "*main.otherType":
			return &otherType{1}
		case "complex128":
			return complex(1, 2)
		case "[]int":
			return []int{1}
		case "map[int]string":
			return map[int]string{1: "a"}
		case "chan int":
			return make(chan int)
		case "struct {}":
			return struct{}{}
		case "[]string":
			return []string{"a"}
		}
		panic("bad other tag")
	}
	panic("bad goval sexp: " + s.String())
}

// SexpOfGo renders what ToInterface returned; nil and empty containers are identified.
func SexpOfGo(v any) *Sexp {
	switch v := v.(type) {
	case nil:
		return L(A("nil"))
	case string:
		return L(A("str"), hexAtom([]byte(v)))
	case int64:
		return L(A("i64"), A(strconv.FormatInt(v, 10)))
	case int:
		return L(A("int"), A(strconv.FormatInt(int64(v), 10)))
	case uint64:
		return L(A("u64"), A(strconv.FormatUint(v, 10)))
	case uint:
		return L(A("uint"), A(strconv.FormatUint(uint64(v), 10)))
	case bool:
		if v {
			return L(A("bool"), A("1"))
		}
		return L(A("bool"), A("0"))
	case int32:
		return L(A("i32"), A(strconv.FormatInt(int64(v), 10)))
	case uint8:
		return L(A("u8"), A(strconv.FormatUint(uint64(v), 10)))
	case float64:
		return L(A("f64"), floatAtom(v))
	case []byte:
		return L(A("bytes"), hexAtom(v))
	case []any:
		out := L(A("slice"))
		for _, x := range v {
			out.List = append(out.List, SexpOfGo(x))
		}
		return out
	case map[string]any:
		out := L(A("map"))
		keys := make([]string, 0, len(v))
		for k := range v {
			keys = append(keys, k)
		}
		sort.Strings(keys)
		for _, k := range keys {
			out.List = append(out.List, L(hexAtom([]byte(k)), SexpOfGo(v[k])))
		}
		return out
	case time.Time:
		return L(A("reg"), hexAtom([]byte("time.Time")), hexAtom(payloadOfTime(v)))
	case *time.Location:
		return L(A("reg"), hexAtom([]byte("*time.Location")), hexAtom([]byte(v.String())))
	case json.RawMessage:
		return L(A("reg"), hexAtom([]byte("json.RawMessage")), hexAtom([]byte(v)))
	case ugo.Object:
		return L(A("obj"), SexpOfValue(v))
	}
	return L(A("unknown"), A(fmt.Sprintf("%T", v)))
}

func runC20(kind string, args []*Sexp) *Sexp {
	switch kind {
	case "toobj", "toobjalt":
		g := GoOfSexp(args[0])
		var o ugo.Object
		var err error
		if kind == "toobj" {
			o, err = ugo.ToObject(g)
		} else {
			o, err = ugo.ToObjectAlt(g)
		}
		if err != nil {
			return errSexp(err)
		}
		return L(A("ok"), SexpOfValue(o))
	case "toiface":
		return SexpOfGo(ugo.ToInterface(valueOfSexpC20(args[0])))
	case "rtobj", "rtobjalt":
		g := ugo.ToInterface(valueOfSexpC20(args[0]))
		var o ugo.Object
		var err error
		if kind == "rtobj" {
			o, err = ugo.ToObject(g)
		} else {
			o, err = ugo.ToObjectAlt(g)
		}
		if err != nil {
			return errSexp(err)
		}
		return L(A("ok"), SexpOfValue(o))
	case "rtgo":
		o, err := ugo.ToObject(GoOfSexp(args[0]))
		if err != nil {
			return errSexp(err)
		}
		return L(A("ok"), SexpOfGo(ugo.ToInterface(o)))
	}
	panic("c20: bad kind")
}
