package main

import (
	"bytes"
	"errors"
	"fmt"
	"io/fs"
	"strings"
	"time"

	"github.com/ozanh/ugo"
	"github.com/ozanh/ugo/encoder"
)

// encodeBytes is a deterministic digest of everything a VM reads from a Bytecode (the encoder
// itself emits maps in Go's random iteration order); it also checks that encoding still works.
func encodeBytes(bc *ugo.Bytecode) []byte {
	var b bytes.Buffer
	if err := encoder.EncodeBytecodeTo(bc, &b); err != nil {
		return []byte("encode-error:" + err.Error())
	}
	var d bytes.Buffer
	dump := func(cf *ugo.CompiledFunction) {
		fmt.Fprintf(&d, "fn %d %d %v %x %s free=%d\n", cf.NumParams, cf.NumLocals, cf.Variadic, cf.Instructions, srcMapSexp(cf.SourceMap).String(), len(cf.Free))
	}
	dump(bc.Main)
	for _, c := range bc.Constants {
		if cf, ok := c.(*ugo.CompiledFunction); ok {
			dump(cf)
		} else {
			fmt.Fprintf(&d, "const %s\n", sexpOfCval(c).String())
		}
	}
	fmt.Fprintf(&d, "modules %d files %d\n", bc.NumModules, len(bc.FileSet.Files))
	return d.Bytes()
}

// badError is an error whose Error method panics.
type badError struct{}

func (badError) Error() string { var p *int; return fmt.Sprint(*p) }

// objImporter is a host Importable which gives a uGO object as the module value.
type objImporter struct{ obj ugo.Object }

func (m objImporter) Import(string) (any, error) { return m.obj, nil }

func hostGlobals() ugo.Map {
	return ugo.Map{
		"gopanic": &ugo.Function{Name: "gopanic", Value: func(args ...ugo.Object) (ugo.Object, error) {
			panic("host callback panic")
		}},
		"gopanicnil": &ugo.Function{Name: "gopanicnil", Value: func(args ...ugo.Object) (ugo.Object, error) {
			panic(nil)
		}},
		// panic values of every kind a Go callback can leave: error values (plain, typed nil whose Error method
		// cannot be called, one whose Error method panics itself, a uGO error object), a struct, a nil map write
		"gopanicerr": &ugo.Function{Name: "gopanicerr", Value: func(args ...ugo.Object) (ugo.Object, error) {
			panic(errors.New("host error value"))
		}},
		"gopanictnil": &ugo.Function{Name: "gopanictnil", Value: func(args ...ugo.Object) (ugo.Object, error) {
			var perr *fs.PathError
			panic(perr)
		}},
		"gopanicbad": &ugo.Function{Name: "gopanicbad", Value: func(args ...ugo.Object) (ugo.Object, error) {
			panic(badError{})
		}},
		"gopanicobj": &ugo.Function{Name: "gopanicobj", Value: func(args ...ugo.Object) (ugo.Object, error) {
			panic(ugo.ErrType.NewError("as panic value"))
		}},
		"gopanicstruct": &ugo.Function{Name: "gopanicstruct", Value: func(args ...ugo.Object) (ugo.Object, error) {
			panic(struct{ X, Y int }{1, 2})
		}},
		"gopanicmap": &ugo.Function{Name: "gopanicmap", Value: func(args ...ugo.Object) (ugo.Object, error) {
			var m map[string]int
			m["k"] = 1
			return ugo.Undefined, nil
		}},
		"goindex": &ugo.Function{Name: "goindex", Value: func(args ...ugo.Object) (ugo.Object, error) {
			var a []int
			return ugo.Int(a[3]), nil
		}},
		"goerr": &ugo.Function{Name: "goerr", Value: func(args ...ugo.Object) (ugo.Object, error) {
			return nil, fmt.Errorf("host error")
		}},
		"gonil": &ugo.Function{Name: "gonil", Value: func(args ...ugo.Object) (ugo.Object, error) {
			return ugo.Undefined, nil
		}},
		"n": ugo.Int(0),
		// the host calls a script function back through an Invoker (a child VM), not pooled / pooled
		"callfn": &ugo.Function{Name: "callfn", ValueEx: func(c ugo.Call) (ugo.Object, error) {
			if c.Len() < 1 {
				return ugo.Undefined, ugo.ErrWrongNumArguments
			}
			var a []ugo.Object
			for i := 1; i < c.Len(); i++ {
				a = append(a, c.Get(i))
			}
			return ugo.NewInvoker(c.VM(), c.Get(0)).Invoke(a...)
		}},
		"callfnp": &ugo.Function{Name: "callfnp", ValueEx: func(c ugo.Call) (ugo.Object, error) {
			if c.Len() < 1 {
				return ugo.Undefined, ugo.ErrWrongNumArguments
			}
			var a []ugo.Object
			for i := 1; i < c.Len(); i++ {
				a = append(a, c.Get(i))
			}
			inv := ugo.NewInvoker(c.VM(), c.Get(0))
			inv.Acquire()
			defer inv.Release()
			return inv.Invoke(a...)
		}},
	}
}

// runOn runs bc on vm (set as its bytecode) with an optional abort after a delay.
func runOn(vm *ugo.VM, bc *ugo.Bytecode, abortAfterMs int, args []ugo.Object) *Sexp {
	return runOnG(vm, bc, abortAfterMs, args, false)
}

var sameGoroutine bool

// runVMHere runs the VM on the calling goroutine (under recover, without a time limit of its own).
func runVMHere(vm *ugo.VM, globals ugo.Object, args ...ugo.Object) (out *Sexp) {
	defer func() {
		if r := recover(); r != nil {
			out = L(A("panic"), A(sanitize(fmt.Sprint(r))))
		}
	}()
	v, err := vm.Run(globals, args...)
	if err != nil {
		return errSexp(err)
	}
	return L(A("ok"), SexpOfValue(v))
}

// nilGlobals: Run is given no globals object (the VM creates its own)
func runOnG(vm *ugo.VM, bc *ugo.Bytecode, abortAfterMs int, args []ugo.Object, nilGlobals bool) *Sexp {
	vm.SetBytecode(bc)
	if abortAfterMs > 0 {
		go func() {
			time.Sleep(time.Duration(abortAfterMs) * time.Millisecond)
			vm.Abort()
		}()
	}
	if sameGoroutine {
		if nilGlobals {
			return runVMHere(vm, nil, args...)
		}
		return runVMHere(vm, hostGlobals(), args...)
	}
	if nilGlobals {
		return runVM(vm, nil, args...)
	}
	return runVM(vm, hostGlobals(), args...)
}

// (case id history <recover 0|1|0n|1n> ; the suffix n: every Run is given nil globals (hist (<src hex> <clear 0|1> <abort ms> [(args v...)])...) <obs hex> (args v...) <module hex>...)
func runHistory(args []*Sexp) *Sexp {
	rec := strings.HasPrefix(args[0].Atom, "1")
	nilG := strings.Contains(args[0].Atom, "n")
	// suffix s: every run of the case is made on the calling goroutine (a child VM which a run gives back to the
	// pool is then the one the next run takes)
	sameGoroutine = strings.Contains(args[0].Atom, "s")
	defer func() { sameGoroutine = false }()
	mm := func() *ugo.ModuleMap {
		mm := moduleMapStd()
		for i, a := range args[4:] {
			mm.AddSourceModule(fmt.Sprintf("m%d", i+1), atomBytes(a))
		}
		// modules of a host Importable whose value is not a map: every container kind
		mm.Add("cbytes", objImporter{ugo.Bytes{1, 2, 3}})
		mm.Add("carr", objImporter{ugo.Array{ugo.Int(1), ugo.Array{ugo.Int(2)}}})
		mm.Add("csm", objImporter{&ugo.SyncMap{Value: ugo.Map{"k": ugo.Int(1), "inner": ugo.Map{}}}})
		mm.Add("cmap", objImporter{ugo.Map{"x": ugo.Int(0), "b": ugo.Bytes{7}}})
		mm.Add("cerr", objImporter{&ugo.Error{Name: "modErr", Message: "m"}})
		return mm
	}
	var obsArgs []ugo.Object
	for _, a := range args[3].List[1:] {
		obsArgs = append(obsArgs, ValueOfSexp(a))
	}
	obsBc, err, pan := compileSrc(atomBytes(args[2]), ugo.CompilerOptions{ModuleMap: mm(), NoOptimize: true})
	if err != nil || pan != nil {
		return L(A("obs-compile-error"))
	}
	before := encodeBytes(obsBc)
	// the observed script on a new VM before anything else has run in this case: what it must give afterwards too
	baseline := runOnG(ugo.NewVM(nil).SetRecover(rec), obsBc, 0, obsArgs, nilG)
	vm := ugo.NewVM(nil).SetRecover(rec)
	hist := L(A("hist"))
	histUnchanged := "1"
	for _, h := range args[1].List[1:] {
		bc, err, pan := compileSrc(atomBytes(h.List[0]), ugo.CompilerOptions{ModuleMap: mm(), NoOptimize: true})
		if err != nil || pan != nil {
			hist.List = append(hist.List, L(A("compile-error")))
			continue
		}
		enc0 := encodeBytes(bc)
		ms := int(atomInt(h.List[2]))
		var hargs []ugo.Object
		if len(h.List) > 3 {
			for _, a := range h.List[3].List[1:] {
				hargs = append(hargs, ValueOfSexp(a))
			}
		}
		r := runOnG(vm, bc, ms, hargs, nilG)
		hist.List = append(hist.List, r)
		if !bytes.Equal(enc0, encodeBytes(bc)) {
			histUnchanged = "0"
		}
		if h.List[1].Atom == "1" {
			vm.Clear()
		}
	}
	used := runOnG(vm, obsBc, 0, obsArgs, nilG)
	again := runOnG(vm, obsBc, 0, obsArgs, nilG)
	fresh := runOnG(ugo.NewVM(nil).SetRecover(rec), obsBc, 0, obsArgs, nilG)
	after := encodeBytes(obsBc)
	unchanged := "1"
	if !bytes.Equal(before, after) {
		unchanged = "0"
	}
	return L(A("history"), hist, L(A("used"), used), L(A("again"), again), L(A("fresh"), fresh), L(A("unchanged"), A(unchanged), A(histUnchanged)), L(A("baseline"), baseline))
}
