package main

import (
	"bytes"
	"fmt"
	"os"
	"path/filepath"
	"strings"

	"github.com/ozanh/ugo"
	"github.com/ozanh/ugo/encoder"
	"github.com/ozanh/ugo/importers"
)

// (case id modgraph <opt|noopt> <encdec 0|1> <main hex> <module hex>...)
// runs main twice on two fresh VMs over the same Bytecode (second run checks per-VM privacy)
func runModGraph(args []*Sexp) *Sexp {
	mm := moduleMapStd()
	for i, a := range args[3:] {
		mm.AddSourceModule(fmt.Sprintf("m%d", i+1), atomBytes(a))
	}
	// Go modules of a host Importable whose value is not a map: private per VM like any builtin module value
	mm.Add("cbytes", objImporter{ugo.Bytes{1, 2, 3}})
	mm.Add("carr", objImporter{ugo.Array{ugo.Int(1), ugo.Array{ugo.Int(2)}}})
	mm.Add("csm", objImporter{&ugo.SyncMap{Value: ugo.Map{"k": ugo.Int(1), "inner": ugo.Map{}}}})
	opts := ugo.CompilerOptions{ModuleMap: mm, NoOptimize: args[0].Atom == "noopt"}
	bc, err, pan := compileSrc(atomBytes(args[2]), opts)
	if pan != nil {
		return L(A("compile-panic"), A(sanitize(fmt.Sprint(pan))))
	}
	if err != nil {
		return L(A("compile-error"), A(sanitize(firstLine(err.Error()))))
	}
	if args[1].Atom == "1" {
		var buf bytes.Buffer
		if err := encoder.EncodeBytecodeTo(bc, &buf); err != nil {
			return L(A("encode-error"))
		}
		bc, err = encoder.DecodeBytecodeFrom(bytes.NewReader(buf.Bytes()), mm)
		if err != nil {
			return L(A("decode-error"), A(sanitize(err.Error())))
		}
	}
	// (constant index, module index) of every LOADMODULE in every function
	pairs := L(A("loads"))
	scan := func(cf *ugo.CompiledFunction) {
		ugo.IterateInstructions(cf.Instructions, func(pos int, op ugo.Opcode, operands []int, offset int) bool {
			if op == ugo.OpLoadModule {
				pairs.List = append(pairs.List, L(A(fmt.Sprint(operands[0])), A(fmt.Sprint(operands[1]))))
			}
			return true
		})
	}
	scan(bc.Main)
	for _, c := range bc.Constants {
		if cf, ok := c.(*ugo.CompiledFunction); ok {
			scan(cf)
		}
	}
	// apply(f) / applyp(f): a Go callback running f on a child VM (Invoker without / with Acquire)
	mkApply := func(pooled bool) *ugo.Function {
		return &ugo.Function{Name: "apply", ValueEx: func(c ugo.Call) (ugo.Object, error) {
			if c.Len() != 1 {
				return ugo.Undefined, ugo.ErrWrongNumArguments
			}
			inv := ugo.NewInvoker(c.VM(), c.Get(0))
			if pooled {
				inv.Acquire()
				defer inv.Release()
			}
			return inv.Invoke()
		}}
	}
	g1 := ugo.Map{"log": ugo.Array{}, "apply": mkApply(false), "applyp": mkApply(true), "g": ugo.Map{}}
	r1 := runBytecode(bc, g1)
	// a third run on a VM that ran another program (with as many modules, imported and changed in place) before and
	// was given this Bytecode with SetBytecode: the modules of this program are loaded by their own bodies
	if args[1].Atom != "1" {
		var pre strings.Builder
		pre.WriteString("out := 0\n")
		for i := 0; i < bc.NumModules && i < 6; i++ {
			fmt.Fprintf(&pre, "p%d := import(\"pre%d\")\np%d.n = 41\nout += p%d.n\n", i, i, i, i)
		}
		pre.WriteString("return out\n")
		pmm := ugo.NewModuleMap()
		for i := 0; i < 6; i++ {
			pmm.AddSourceModule(fmt.Sprintf("pre%d", i), []byte(fmt.Sprintf("return {n: %d, name: \"pre%d\", set: func(v) { }, get: func() { return -1 }, box: [-1]}", i, i)))
		}
		if pbc, perr, ppan := compileSrc([]byte(pre.String()), ugo.CompilerOptions{ModuleMap: pmm}); perr == nil && ppan == nil {
			vm := ugo.NewVM(pbc)
			if _, err := vm.Run(nil); err == nil {
				vm.SetBytecode(bc)
				g3 := ugo.Map{"log": ugo.Array{}, "apply": mkApply(false), "applyp": mkApply(true), "g": ugo.Map{}}
				r3 := runVM(vm, g3)
				if r3.String() != r1.String() || SexpOfValue(g3["log"]).String() != SexpOfValue(g1["log"]).String() {
					return L(A("modgraph-reused-vm"), r1, SexpOfValue(g1["log"]), r3, SexpOfValue(g3["log"]))
				}
			}
		}
	}
	g2 := ugo.Map{"log": ugo.Array{}, "apply": mkApply(false), "applyp": mkApply(true), "g": ugo.Map{}}
	r2 := runBytecode(bc, g2)
	return L(A("modgraph"), r1, SexpOfValue(g1["log"]), r2, SexpOfValue(g2["log"]), pairs, A(fmt.Sprint(bc.NumModules)))
}

// (case id fileimp <opt|noopt> <workdir hex> (files (<path hex> <src hex>)...) <main hex>)
// File modules through importers.FileImporter over a virtual file tree. Paths of files are relative
// to a virtual root directory <cwd>/vroot; in the work directory and in the sources @ROOT@ stands
// for the absolute path of that root and @CWDBASE@ for the last element of the process directory
// (for spellings which climb above a relative work directory and come back).
// -> (fileimp <result> <log> (cwd <hex>))
func runFileImp(args []*Sexp) *Sexp {
	cwd, err := os.Getwd()
	if err != nil {
		return L(A("harness-error"), A(sanitize(err.Error())))
	}
	root := filepath.Join(cwd, "vroot")
	subst := func(b []byte) string {
		s := strings.ReplaceAll(string(b), "@ROOT@", root)
		return strings.ReplaceAll(s, "@CWDBASE@", filepath.Base(cwd))
	}
	files := map[string]string{}
	for _, f := range args[2].List[1:] {
		files[filepath.Join(root, string(atomBytes(f.List[0])))] = subst(atomBytes(f.List[1]))
	}
	reader := func(name string) ([]byte, error) {
		abs, err := filepath.Abs(name)
		if err != nil {
			return nil, err
		}
		src, ok := files[abs]
		if !ok {
			return nil, os.ErrNotExist
		}
		return []byte(src), nil
	}
	mm := moduleMapStd()
	mm.SetExtImporter(&importers.FileImporter{WorkDir: subst(atomBytes(args[1])), FileReader: reader})
	opts := ugo.CompilerOptions{ModuleMap: mm, NoOptimize: args[0].Atom == "noopt"}
	bc, err, pan := compileSrc([]byte(subst(atomBytes(args[3]))), opts)
	if pan != nil {
		return L(A("compile-panic"), A(sanitize(fmt.Sprint(pan))))
	}
	if err != nil {
		return L(A("compile-error"), A(sanitize(firstLine(err.Error()))))
	}
	g := ugo.Map{"log": ugo.Array{}}
	r := runBytecode(bc, g)
	return L(A("fileimp"), r, SexpOfValue(g["log"]), L(A("cwd"), hexAtom([]byte(cwd))))
}

// (case id finame (<workdir hex> <name hex>)...) -> (finame (cwd <hex>) <Name() hex>...)
// FileImporter.Name for a work directory and an import name, as the compiler asks for it.
func runFiName(args []*Sexp) *Sexp {
	cwd, _ := os.Getwd()
	out := L(A("finame"), L(A("cwd"), hexAtom([]byte(cwd))))
	for _, p := range args {
		fi := &importers.FileImporter{WorkDir: string(atomBytes(p.List[0]))}
		ext := fi.Get(string(atomBytes(p.List[1])))
		if ext == nil {
			out.List = append(out.List, A("none"))
			continue
		}
		out.List = append(out.List, hexAtom([]byte(ext.Name())))
	}
	return out
}
