package main

import (
	"bytes"
	"fmt"

	"github.com/ozanh/ugo"
	"github.com/ozanh/ugo/encoder"
)

// (case id modgraph <opt|noopt> <encdec 0|1> <main hex> <module hex>...)
// runs main twice on two fresh VMs over the same Bytecode (second run checks per-VM privacy)
func runModGraph(args []*Sexp) *Sexp {
	mm := moduleMapStd()
	for i, a := range args[3:] {
		mm.AddSourceModule(fmt.Sprintf("m%d", i+1), atomBytes(a))
	}
	opts := ugo.CompilerOptions{ModuleMap: mm, NoOptimize: args[0].Atom == "noopt"}
	bc, err, pan := compileSrc(atomBytes(args[2]), opts)
	if pan != nil {
		return L(A("compile-panic"), A(sanitize(fmt.Sprint(pan))))
	}
	if err != nil {
		return L(A("compile-error"), A(sanitize(firstLine(err.Error()))))
	}
	if args[1].Atom == "1" {
		var buf bytes.Buffer
		if err := encoder.EncodeBytecodeTo(bc, &buf); err != nil {
			return L(A("encode-error"))
		}
		bc, err = encoder.DecodeBytecodeFrom(bytes.NewReader(buf.Bytes()), mm)
		if err != nil {
			return L(A("decode-error"), A(sanitize(err.Error())))
		}
	}
	// (constant index, module index) of every LOADMODULE in every function
	pairs := L(A("loads"))
	scan := func(cf *ugo.CompiledFunction) {
		ugo.IterateInstructions(cf.Instructions, func(pos int, op ugo.Opcode, operands []int, offset int) bool {
			if op == ugo.OpLoadModule {
				pairs.List = append(pairs.List, L(A(fmt.Sprint(operands[0])), A(fmt.Sprint(operands[1]))))
			}
			return true
		})
	}
	scan(bc.Main)
	for _, c := range bc.Constants {
		if cf, ok := c.(*ugo.CompiledFunction); ok {
			scan(cf)
		}
	}
	// apply(f) / applyp(f): a Go callback running f on a child VM (Invoker without / with Acquire)
	mkApply := func(pooled bool) *ugo.Function {
		return &ugo.Function{Name: "apply", ValueEx: func(c ugo.Call) (ugo.Object, error) {
			if c.Len() != 1 {
				return ugo.Undefined, ugo.ErrWrongNumArguments
			}
			inv := ugo.NewInvoker(c.VM(), c.Get(0))
			if pooled {
				inv.Acquire()
				defer inv.Release()
			}
			return inv.Invoke()
		}}
	}
	g1 := ugo.Map{"log": ugo.Array{}, "apply": mkApply(false), "applyp": mkApply(true)}
	r1 := runBytecode(bc, g1)
	g2 := ugo.Map{"log": ugo.Array{}, "apply": mkApply(false), "applyp": mkApply(true)}
	r2 := runBytecode(bc, g2)
	return L(A("modgraph"), r1, SexpOfValue(g1["log"]), r2, SexpOfValue(g2["log"]), pairs, A(fmt.Sprint(bc.NumModules)))
}
