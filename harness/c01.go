package main

import (
	"bytes"
	"fmt"
	"math"
	"strconv"
	"strings"

	"github.com/ozanh/ugo"
	"github.com/ozanh/ugo/parser"
	"github.com/ozanh/ugo/token"
)

func litOfSexp(s *Sexp) parser.Expr {
	switch s.Head() {
	case "i":
		v := atomInt(s.List[1])
		return &parser.IntLit{Value: v, Literal: strconv.FormatInt(v, 10)}
	case "u":
		v := atomUint(s.List[1])
		return &parser.UintLit{Value: v, Literal: strconv.FormatUint(v, 10)}
	case "f":
		v := atomFloat(s.List[1])
		return &parser.FloatLit{Value: v, Literal: strconv.FormatFloat(v, 'f', -1, 64)}
	case "s":
		v := string(atomBytes(s.List[1]))
		return &parser.StringLit{Value: v, Literal: strconv.Quote(v)}
	case "b":
		return &parser.BoolLit{Value: s.List[1].Atom == "1"}
	case "c":
		return &parser.CharLit{Value: rune(atomInt(s.List[1]))}
	case "n":
		return &parser.UndefinedLit{}
	}
	panic("bad lit")
}

func sexpOfLit(e parser.Expr) *Sexp {
	switch v := e.(type) {
	case *parser.IntLit:
		return L(A("i"), A(strconv.FormatInt(v.Value, 10)))
	case *parser.UintLit:
		return L(A("u"), A(strconv.FormatUint(v.Value, 10)))
	case *parser.FloatLit:
		return L(A("f"), floatAtom(v.Value))
	case *parser.StringLit:
		return L(A("s"), hexAtom([]byte(v.Value)))
	case *parser.BoolLit:
		if v.Value {
			return L(A("b"), A("1"))
		}
		return L(A("b"), A("0"))
	case *parser.CharLit:
		return L(A("c"), A(strconv.FormatInt(int64(v.Value), 10)))
	case *parser.UndefinedLit:
		return L(A("n"))
	}
	return L(A("otherlit"), A(fmt.Sprintf("%T", e)))
}

func runFold(kind string, args []*Sexp) *Sexp {
	switch kind {
	case "foldbin":
		e, ok := ugo.VerifFoldBinary(tokByName[args[0].Atom], litOfSexp(args[1]), litOfSexp(args[2]))
		if !ok {
			return L(A("nofold"))
		}
		return L(A("fold"), sexpOfLit(e))
	case "foldun":
		e, ok := ugo.VerifFoldUnary(tokByName[args[0].Atom], litOfSexp(args[1]))
		if !ok {
			return L(A("nofold"))
		}
		return L(A("fold"), sexpOfLit(e))
	case "litfalsy":
		f, ok := ugo.VerifIsLiteralFalsy(litOfSexp(args[0]))
		if !ok {
			return L(A("nolit"))
		}
		return boolSexp(f)
	}
	panic("fold kind")
}

// runWithOutput compiles src with opts and runs it, capturing printed output and globals.
func runWithOutput(src []byte, opts ugo.CompilerOptions, globalsSrc *Sexp, args []ugo.Object) *Sexp {
	bc, err, pan := compileSrc(src, opts)
	if pan != nil {
		return L(A("compile-panic"), A(sanitize(fmt.Sprint(pan))))
	}
	if err != nil {
		cls := "compile-error"
		var oe *ugo.OptimizerError
		txt := err.Error()
		if asOptimizerError(err, &oe) ||
			(strings.Contains(txt, "Optimizer Error") && !strings.Contains(txt, "Compile Error") && !strings.Contains(txt, "Parse Error")) {
			cls = "optimizer-error"
		}
		return L(A(cls), A(sanitize(firstLine(txt))))
	}
	var out bytes.Buffer
	old := ugo.PrintWriter
	ugo.PrintWriter = &out
	defer func() { ugo.PrintWriter = old }()
	var globals ugo.Object
	if globalsSrc != nil {
		globals = ValueOfSexp(globalsSrc)
	} else {
		globals = ugo.Map{}
	}
	res := runBytecode(bc, globals, args...)
	return L(A("ran"), res, L(A("out"), hexAtom(out.Bytes())), L(A("globals"), SexpOfValue(globals)))
}

func firstLine(s string) string {
	for i := 0; i < len(s); i++ {
		if s[i] == '\n' {
			return s[:i]
		}
	}
	return s
}

func asOptimizerError(err error, target **ugo.OptimizerError) bool {
	for err != nil {
		if oe, ok := err.(*ugo.OptimizerError); ok {
			*target = oe
			return true
		}
		type unwrapper interface{ Unwrap() error }
		type multi interface{ Errors() []error }
		if u, ok := err.(unwrapper); ok {
			err = u.Unwrap()
			continue
		}
		break
	}
	// multipleErr: look at the text
	return false
}

// (case id optprog <src hex> (limits n...) [<module hex>...])
func runOptProg(args []*Sexp) *Sexp {
	src := atomBytes(args[0])
	mm := func() *ugo.ModuleMap {
		mm := moduleMapStd()
		for i, a := range args[2:] {
			mm.AddSourceModule("m"+strconv.Itoa(i+1), atomBytes(a))
		}
		return mm
	}
	params := []ugo.Object{ugo.Int(3), ugo.String("p")}
	out := L(A("optprog"))
	out.List = append(out.List, L(A("noopt"), runWithOutput(src, ugo.CompilerOptions{ModuleMap: mm(), NoOptimize: true}, nil, params)))
	for _, l := range args[1].List[1:] {
		n := int(atomInt(l))
		out.List = append(out.List, L(A("opt"), A(strconv.Itoa(n)), runWithOutput(src, ugo.CompilerOptions{ModuleMap: mm(), OptimizerLimit: n}, nil, params)))
	}
	return out
}

var _ = math.Abs

// ---- translation validation of the optimizer on expression trees ----

// exprSexp prints an expression of the parser's syntax tree; nodes outside the fragment are
// numbered by their text.
func exprSexp(e parser.Expr, others map[string]int) *Sexp {
	bin := func(tag string, n *parser.BinaryExpr) *Sexp {
		return L(A(tag), exprSexp(n.LHS, others), exprSexp(n.RHS, others))
	}
	switch n := e.(type) {
	case *parser.ParenExpr:
		return exprSexp(n.Expr, others)
	case *parser.IntLit:
		return L(A("l"), L(A("i"), A(strconv.FormatInt(n.Value, 10))))
	case *parser.UintLit:
		return L(A("l"), L(A("u"), A(strconv.FormatUint(n.Value, 10))))
	case *parser.FloatLit:
		return L(A("l"), L(A("f"), A(fmt.Sprintf("%016x", math.Float64bits(n.Value)))))
	case *parser.StringLit:
		return L(A("l"), L(A("s"), hexAtom([]byte(n.Value))))
	case *parser.BoolLit:
		if n.Value {
			return L(A("l"), L(A("b"), A("1")))
		}
		return L(A("l"), L(A("b"), A("0")))
	case *parser.CharLit:
		return L(A("l"), L(A("c"), A(strconv.FormatInt(int64(n.Value), 10))))
	case *parser.UndefinedLit:
		return L(A("l"), L(A("n")))
	case *parser.Ident:
		if len(n.Name) == 2 && n.Name[0] == 'p' && n.Name[1] >= '0' && n.Name[1] <= '9' {
			return L(A("v"), A(n.Name[1:]))
		}
	case *parser.UnaryExpr:
		if t, ok := tokAtoms[n.Token]; ok {
			return L(A("un"), A(t), exprSexp(n.Expr, others))
		}
	case *parser.CondExpr:
		return L(A("cond"), exprSexp(n.Cond, others), exprSexp(n.True, others), exprSexp(n.False, others))
	case *parser.BinaryExpr:
		switch n.Token {
		case token.Equal:
			return bin("eq", n)
		case token.NotEqual:
			return bin("ne", n)
		case token.LAnd:
			return bin("and", n)
		case token.LOr:
			return bin("or", n)
		}
		if t, ok := tokAtoms[n.Token]; ok {
			return L(A("bin"), A(t), exprSexp(n.LHS, others), exprSexp(n.RHS, others))
		}
	}
	txt := e.String()
	id, ok := others[txt]
	if !ok {
		id = len(others) + 1
		others[txt] = id
	}
	return L(A("other"), A(strconv.Itoa(id)))
}

var tokAtoms = map[token.Token]string{
	token.Add: "add", token.Sub: "sub", token.Mul: "mul", token.Quo: "quo", token.Rem: "rem",
	token.And: "and", token.Or: "or", token.Xor: "xor", token.AndNot: "andnot", token.Shl: "shl", token.Shr: "shr",
	token.Less: "lt", token.LessEq: "le", token.Greater: "gt", token.GreaterEq: "ge", token.Not: "not",
}

// (case id optexpr <limit> <src hex>): the script ends with `return <expr>`; the expression before and after
// the optimizer -> (optexpr <before> (after <after>)) | (optexpr <before> (refused)) | (parse-error) ...
func runOptExpr(args []*Sexp) (out *Sexp) {
	defer func() {
		if r := recover(); r != nil {
			out = L(A("panic"), A(sanitize(fmt.Sprint(r))))
		}
	}()
	limit := int(atomInt(args[0]))
	src := atomBytes(args[1])
	fileSet := parser.NewFileSet()
	srcFile := fileSet.AddFile("(main)", -1, len(src))
	pf, err := parser.NewParser(srcFile, src, nil).ParseFile()
	if err != nil || len(pf.Stmts) == 0 {
		return L(A("parse-error"))
	}
	ret, ok := pf.Stmts[len(pf.Stmts)-1].(*parser.ReturnStmt)
	if !ok || ret.Result == nil {
		return L(A("no-return"))
	}
	others := map[string]int{}
	before := exprSexp(ret.Result, others)
	opt := ugo.NewOptimizer(srcFile, ugo.NewSymbolTable(), ugo.CompilerOptions{OptimizerLimit: limit})
	if err := opt.Optimize(pf); err != nil {
		return L(A("optexpr"), before, L(A("refused")), A(sanitize(firstLine(err.Error()))))
	}
	return L(A("optexpr"), before, L(A("after"), exprSexp(ret.Result, others)))
}
