package main

import (
	"bytes"
	"fmt"
	"math"
	"strconv"
	"strings"

	"github.com/ozanh/ugo"
	"github.com/ozanh/ugo/parser"
)

func litOfSexp(s *Sexp) parser.Expr {
	switch s.Head() {
	case "i":
		v := atomInt(s.List[1])
		return &parser.IntLit{Value: v, Literal: strconv.FormatInt(v, 10)}
	case "u":
		v := atomUint(s.List[1])
		return &parser.UintLit{Value: v, Literal: strconv.FormatUint(v, 10)}
	case "f":
		v := atomFloat(s.List[1])
		return &parser.FloatLit{Value: v, Literal: strconv.FormatFloat(v, 'f', -1, 64)}
	case "s":
		v := string(atomBytes(s.List[1]))
		return &parser.StringLit{Value: v, Literal: strconv.Quote(v)}
	case "b":
		return &parser.BoolLit{Value: s.List[1].Atom == "1"}
	case "c":
		return &parser.CharLit{Value: rune(atomInt(s.List[1]))}
	case "n":
		return &parser.UndefinedLit{}
	}
	panic("bad lit")
}

func sexpOfLit(e parser.Expr) *Sexp {
	switch v := e.(type) {
	case *parser.IntLit:
		return L(A("i"), A(strconv.FormatInt(v.Value, 10)))
	case *parser.UintLit:
		return L(A("u"), A(strconv.FormatUint(v.Value, 10)))
	case *parser.FloatLit:
		return L(A("f"), floatAtom(v.Value))
	case *parser.StringLit:
		return L(A("s"), hexAtom([]byte(v.Value)))
	case *parser.BoolLit:
		if v.Value {
			return L(A("b"), A("1"))
		}
		return L(A("b"), A("0"))
	case *parser.CharLit:
		return L(A("c"), A(strconv.FormatInt(int64(v.Value), 10)))
	case *parser.UndefinedLit:
		return L(A("n"))
	}
	return L(A("otherlit"), A(fmt.Sprintf("%T", e)))
}

func runFold(kind string, args []*Sexp) *Sexp {
	switch kind {
	case "foldbin":
		e, ok := ugo.VerifFoldBinary(tokByName[args[0].Atom], litOfSexp(args[1]), litOfSexp(args[2]))
		if !ok {
			return L(A("nofold"))
		}
		return L(A("fold"), sexpOfLit(e))
	case "foldun":
		e, ok := ugo.VerifFoldUnary(tokByName[args[0].Atom], litOfSexp(args[1]))
		if !ok {
			return L(A("nofold"))
		}
		return L(A("fold"), sexpOfLit(e))
	case "litfalsy":
		f, ok := ugo.VerifIsLiteralFalsy(litOfSexp(args[0]))
		if !ok {
			return L(A("nolit"))
		}
		return boolSexp(f)
	}
	panic("fold kind")
}

// runWithOutput compiles src with opts and runs it, capturing printed output and globals.
func runWithOutput(src []byte, opts ugo.CompilerOptions, globalsSrc *Sexp, args []ugo.Object) *Sexp {
	bc, err, pan := compileSrc(src, opts)
	if pan != nil {
		return L(A("compile-panic"), A(sanitize(fmt.Sprint(pan))))
	}
	if err != nil {
		cls := "compile-error"
		var oe *ugo.OptimizerError
		txt := err.Error()
		if asOptimizerError(err, &oe) ||
			(strings.Contains(txt, "Optimizer Error") && !strings.Contains(txt, "Compile Error") && !strings.Contains(txt, "Parse Error")) {
			cls = "optimizer-error"
		}
		return L(A(cls), A(sanitize(firstLine(txt))))
	}
	var out bytes.Buffer
	old := ugo.PrintWriter
	ugo.PrintWriter = &out
	defer func() { ugo.PrintWriter = old }()
	var globals ugo.Object
	if globalsSrc != nil {
		globals = ValueOfSexp(globalsSrc)
	} else {
		globals = ugo.Map{}
	}
	res := runBytecode(bc, globals, args...)
	return L(A("ran"), res, L(A("out"), hexAtom(out.Bytes())), L(A("globals"), SexpOfValue(globals)))
}

func firstLine(s string) string {
	for i := 0; i < len(s); i++ {
		if s[i] == '\n' {
			return s[:i]
		}
	}
	return s
}

func asOptimizerError(err error, target **ugo.OptimizerError) bool {
	for err != nil {
		if oe, ok := err.(*ugo.OptimizerError); ok {
			*target = oe
			return true
		}
		type unwrapper interface{ Unwrap() error }
		type multi interface{ Errors() []error }
		if u, ok := err.(unwrapper); ok {
			err = u.Unwrap()
			continue
		}
		break
	}
	// multipleErr: look at the text
	return false
}

// (case id optprog <src hex> (limits n...) [<module hex>...])
func runOptProg(args []*Sexp) *Sexp {
	src := atomBytes(args[0])
	mm := func() *ugo.ModuleMap {
		mm := moduleMapStd()
		for i, a := range args[2:] {
			mm.AddSourceModule("m"+strconv.Itoa(i+1), atomBytes(a))
		}
		return mm
	}
	params := []ugo.Object{ugo.Int(3), ugo.String("p")}
	out := L(A("optprog"))
	out.List = append(out.List, L(A("noopt"), runWithOutput(src, ugo.CompilerOptions{ModuleMap: mm(), NoOptimize: true}, nil, params)))
	for _, l := range args[1].List[1:] {
		n := int(atomInt(l))
		out.List = append(out.List, L(A("opt"), A(strconv.Itoa(n)), runWithOutput(src, ugo.CompilerOptions{ModuleMap: mm(), OptimizerLimit: n}, nil, params)))
	}
	return out
}

var _ = math.Abs
