// ugoh: executes verification cases against the implementation in /repo.
// Reads "(case <id> <kind> args...)" lines on stdin, prints "<id> <result>".
//go:debug panicnil=1

package main

import (
	"bufio"
	"fmt"
	"os"
	"strings"
)

func dispatch(kind string, args []*Sexp) (out *Sexp) {
	defer func() {
		if r := recover(); r != nil {
			out = L(A("panic"), A(strings.ReplaceAll(strings.ReplaceAll(fmt.Sprint(r), " ", "_"), "(", "_")))
			out.List[1].Atom = strings.ReplaceAll(out.List[1].Atom, ")", "_")
		}
	}()
	resetIdentities()
	switch kind {
	case "toobj", "toobjalt", "toiface", "rtobj", "rtobjalt", "rtgo":
		return runC20(kind, args)
	}
	switch kind {
	case "binop", "vmbinop", "litbinop", "purity", "equal", "nequal", "vmequal", "vmnequal", "unop", "vmunop":
		return runC15(kind, args)
	}
	switch kind {
	case "skelvm", "skelvmb", "skelvmt", "skelsem", "skelsrc":
		return runC03(kind, args)
	}
	switch kind {
	case "v1prog":
		return runC11(kind, args)
	case "v1mut":
		return runV1Mut(args)
	}
	switch kind {
	case "decmut", "decraw":
		return runC18(kind, args)
	}
	switch kind {
	case "enc", "dec":
		return runC04(kind, args)
	case "encprog":
		return runEncProg(args)
	}
	switch kind {
	case "symtab":
		return runSymtab(args)
	case "disprog":
		return runDisProg(args)
	}
	switch kind {
	case "foldbin", "foldun", "litfalsy":
		return runFold(kind, args)
	case "optexpr":
		return runOptExpr(args)
	case "optprog":
		return runOptProg(args)
	}
	switch kind {
	case "evalfailstate":
		return runEvalFailState(args)
	case "poolabort":
		return runPoolAbort(args)
	case "lexenum":
		return runLexEnum(args)
	case "compile":
		return runCompile(args)
	}
	switch kind {
	case "callbind":
		return runCallBind(args)
	case "invoketwin":
		return runInvokeTwin(args)
	}
	switch kind {
	case "modgraph":
		return runModGraph(args)
	case "builtinnames":
		return runBuiltinNames(args)
	case "fileimp":
		return runFileImp(args)
	case "finame":
		return runFiName(args)
	}
	switch kind {
	case "trace":
		return runTrace(args)
	case "addlines":
		return runAddLines(args)
	}
	switch kind {
	case "evalseq":
		return runEvalSeq(args)
	}
	switch kind {
	case "history":
		return runHistory(args)
	}
	switch kind {
	case "jsonstr", "jsonmarshal", "jsondoc":
		return runJSON(kind, args)
	}
	switch kind {
	case "inv19", "pool19", "calls19":
		return runC19(kind, args)
	case "size19":
		return runSize19(args)
	case "evalcancel":
		return runEvalCancel(args)
	case "abort09":
		return runAbort09(args)
	case "run02":
		return runRun02(args)
	case "exprcomp":
		return runExprComp(args)
	case "conc":
		return runConc(args)
	case "sharedump":
		return runShareDump(args)
	}
	return L(A("unknown-kind"), A(kind))
}

var flushEach = os.Getenv("UGOH_FLUSH") != ""

func main() {
	in := bufio.NewReaderSize(os.Stdin, 1<<20)
	// results go to the original stdout; anything the implementation prints through Go's fmt goes nowhere
	real := os.Stdout
	if null, err := os.OpenFile(os.DevNull, os.O_WRONLY, 0); err == nil {
		os.Stdout = null
	}
	out := bufio.NewWriterSize(real, 1<<20)
	defer out.Flush()
	for {
		line, err := in.ReadString('\n')
		if len(line) > 0 && line[0] == '(' {
			s, perr := ParseSexp(line)
			if perr != nil || len(s.List) < 3 || s.Head() != "case" {
				fmt.Fprintf(os.Stderr, "bad case line: %s\n", line)
			} else {
				r := dispatch(s.List[2].Atom, s.List[3:])
				fmt.Fprintf(out, "%s %s\n", s.List[1].Atom, r.String())
				if flushEach {
					out.Flush()
				}
			}
		}
		if err != nil {
			break
		}
	}
}
